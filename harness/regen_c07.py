"""Regenerates lean/Heph/Generated/Writes.lean from /repo/src/ir/types.py on every run:
the table of attribute/item writes of the instantiation/substitution functions with the
provenance of the written object (C07 mutation half, DESIGN section 4 C07).

Provenance of the base object of a write `x.f = e`, `x[i] = e`, `x.append(e)`:
  selfCtor   `self` inside `__init__` (the object under construction)
  fresh      a local last bound to a constructor call, `deepcopy(...)`, `copy(...)`, `list(...)`,
             a list/dict/set display or comprehension
  owned      `x.a` where x is fresh and class attribute `a` is assigned from `deepcopy`/`list`/`copy`
             in the `__init__` of the class x was constructed from
  param      a parameter (incl. `self` outside `__init__`) or anything reached from one
  unknown    anything else
The extraction is syntactic and trusted (stated in the trusted base)."""
import ast
import os
import common

FUNCS = ["_get_type_substitution", "substitute_type_args", "substitute_type", "perform_type_substitution",
         "TypeConstructor.new", "ParameterizedType.__init__", "ParameterizedType.to_variance_free",
         "ParameterizedType.to_type_variable_free", "_to_type_variable_free", "TypeParameter.get_bound_rec",
         "WildCardType.get_bound_rec", "Type.get_supertypes", "ParameterizedType.get_type_variables",
         "TypeConstructor.is_subtype", "ParameterizedType.is_subtype", "SimpleClassifier.is_subtype",
         "_is_type_arg_contained", "ParameterizedType.get_type_variable_assignments",
         "ParameterizedType.has_type_variables", "TypeParameter.has_bound_of"]
FRESH_CALLS = {"deepcopy", "copy", "list", "dict", "set", "defaultdict", "sorted"}


def _is_fresh_expr(e, classes):
    if isinstance(e, (ast.List, ast.Dict, ast.Set, ast.ListComp, ast.DictComp, ast.SetComp, ast.Tuple)):
        return True, None
    if isinstance(e, ast.Call):
        f = e.func
        name = f.id if isinstance(f, ast.Name) else (f.attr if isinstance(f, ast.Attribute) else None)
        if name == "defaultdict":
            return True, "defaultdict"
        if name in FRESH_CALLS:
            return True, None
        if name in classes:
            return True, name
    return False, None


def owned_attrs(tree, classes):
    """class -> attributes assigned in __init__ from a fresh expression"""
    out = {}
    for node in tree.body:
        if isinstance(node, ast.ClassDef):
            for fn in node.body:
                if isinstance(fn, ast.FunctionDef) and fn.name == "__init__":
                    for st in ast.walk(fn):
                        if isinstance(st, ast.Assign):
                            for tg in st.targets:
                                if isinstance(tg, ast.Attribute) and isinstance(tg.value, ast.Name) and tg.value.id == "self":
                                    if _is_fresh_expr(st.value, classes)[0]:
                                        out.setdefault(node.name, set()).add(tg.attr)
    return out


def analyse(fn, qual, classes, owned):
    params = {a.arg for a in fn.args.args + fn.args.kwonlyargs}
    binding = {}   # local name -> ("fresh", cls) | ("param",) ...
    for p in params:
        binding[p] = ("selfCtor",) if (p == "self" and fn.name == "__init__") else ("param",)
    writes = []

    def prov(e):
        if isinstance(e, ast.Name):
            return binding.get(e.id, ("unknown",))
        if isinstance(e, ast.Attribute):
            base = prov(e.value)
            if base[0] == "fresh" and len(base) > 1 and e.attr in owned.get(base[1], ()):
                return ("owned",)
            if base[0] == "selfCtor" and False:
                return ("owned",)
            if base[0] in ("fresh", "owned", "selfCtor"):
                return ("param",) if base[0] != "selfCtor" else ("unknown",)
            return ("param",) if base[0] == "param" else ("unknown",)
        if isinstance(e, ast.Subscript):
            b = prov(e.value)
            if b == ("fresh", "defaultdict"):
                return ("fresh", None)   # values of a defaultdict created here are made by its factory
            return ("param",) if b[0] == "param" else ("unknown",)
        return ("unknown",)

    class V(ast.NodeVisitor):
        def visit_FunctionDef(self, node):
            if node is fn:
                self.generic_visit(node)
            # nested functions/lambdas: not descended (none write in these functions)

        def visit_Assign(self, node):
            self.visit(node.value)
            for tg in node.targets:
                self.target(tg, node.value, node.lineno)

        def visit_AugAssign(self, node):
            self.target(node.target, node.value, node.lineno)

        def target(self, tg, value, lineno):
            if isinstance(tg, ast.Name):
                fresh, cls = _is_fresh_expr(value, classes)
                binding[tg.id] = ("fresh", cls) if fresh else ("unknown",) if not isinstance(value, ast.Name) else binding.get(value.id, ("unknown",))
            elif isinstance(tg, ast.Attribute):
                writes.append((qual, lineno, "attr", tg.attr, prov(tg.value)[0]))
            elif isinstance(tg, ast.Subscript):
                writes.append((qual, lineno, "item", "", prov(tg.value)[0]))
            elif isinstance(tg, (ast.Tuple, ast.List)):
                for el in tg.elts:
                    self.target(el, ast.Constant(None), lineno)

        def visit_Call(self, node):
            f = node.func
            if isinstance(f, ast.Attribute) and f.attr in ("append", "extend", "update", "add", "insert", "pop",
                                                           "remove", "clear", "setdefault", "sort", "reverse"):
                writes.append((qual, node.lineno, "call", f.attr, prov(f.value)[0]))
            self.generic_visit(node)

        def visit_For(self, node):
            self.target(node.target, ast.Constant(None), node.lineno)
            self.generic_visit(node)

    V().visit(fn)
    return writes


def collect(path):
    src = open(path).read()
    tree = ast.parse(src)
    classes = {n.name for n in tree.body if isinstance(n, ast.ClassDef)}
    owned = owned_attrs(tree, classes)
    found, writes = set(), []
    for node in tree.body:
        if isinstance(node, ast.FunctionDef) and node.name in FUNCS:
            found.add(node.name)
            writes += analyse(node, node.name, classes, owned)
        if isinstance(node, ast.ClassDef):
            for fn in node.body:
                q = node.name + "." + getattr(fn, "name", "")
                if isinstance(fn, ast.FunctionDef) and q in FUNCS:
                    found.add(q)
                    writes += analyse(fn, q, classes, owned)
    return writes, sorted(set(FUNCS) - found)


def lean_str(s):
    return '"' + s.replace("\\", "\\\\").replace('"', '\\"') + '"'


def regen_writes():
    path = os.path.join(common.REPO, "src", "ir", "types.py")
    writes, missing = collect(path)
    out = ["/-! GENERATED by harness/regen_c07.py from src/ir/types.py — do not edit. -/",
           "namespace Heph.Generated", "",
           "/-- (function, line, kind of write, attribute or method, provenance of the written object) -/",
           "def typesWrites : List (String × Nat × String × String × String) := ["]
    out += ["  (%s, %d, %s, %s, %s)%s" % (lean_str(q), ln, lean_str(k), lean_str(a), lean_str(p),
                                           "," if i + 1 < len(writes) else "")
            for i, (q, ln, k, a, p) in enumerate(writes)]
    out += ["]", "", "/-- functions of the list that were not found in the source (must be empty) -/",
            "def typesWritesMissing : List String := [%s]" % ", ".join(lean_str(m) for m in missing),
            "", "end Heph.Generated", ""]
    txt = "\n".join(out)
    dst = os.path.join(common.LEAN, "Heph", "Generated", "Writes.lean")
    os.makedirs(os.path.dirname(dst), exist_ok=True)
    old = open(dst).read() if os.path.exists(dst) else None
    if old != txt:
        with open(dst, "w") as f:
            f.write(txt)
    return writes, missing


if __name__ == "__main__":
    w, m = regen_writes()
    for x in w:
        print(x)
    print("missing:", m)
