"""C10 — type unification returns a unifier or nothing.

proof side : lean/Heph/Props/C10.lean (unify of Model/Unify.lean against IsUnifier / BoundsOK /
             Functional of Spec/Unify.lean; hypotheses SameProjection / NoStar / OpenStable for the
             unchanged tree, none for the repaired variant; counterexample theorems on witnesses)
tie to code: exact equality of the returned dict (pairs in insertion order, by value) and of the
             exception kind with the model of the variant the tree implements (detected by
             replaying the witnesses), on (target, pattern) pairs over random class tables —
             patterns derived from targets by replacing sub-terms with bounded / repeated type
             variables —, on unrelated pairs, and on ALL unify_types calls of real generator runs;
             independent judge of the implementation: the result substituted back with the real
             substitute_type must give the target (a reference matcher explains open positions).
"""
import common
from common import compare_stream, canon
import export
from export import kind
import gen_types
import unify_lib as ul

LEVEL = "proof"


# ---- pattern derivation -----------------------------------------------------------------------
class Abstractor:
    """derive a pattern from a target by replacing sub-terms with type variables"""

    def __init__(self, tb, rng):
        import src.ir.types as tp
        self.tp, self.tb, self.rng = tp, tb, rng
        self.env = []        # (variable, component it stands for)
        self.n = 0

    def fresh(self, comp):
        tp, rng, tb = self.tp, self.rng, self.tb
        self.n += 1
        nm = "U%d" % self.n
        r = rng.random()
        bound = None
        if r < 0.45 or comp is None:
            bound = None
        elif r < 0.75:
            # a bound the component satisfies: one of its supertypes (or itself)
            try:
                ups = sorted(comp.get_supertypes(), key=str) if kind(comp) in ("b", "s", "p") else [comp]
                bound = rng.choice(ups)
            except Exception:
                bound = None
        elif r < 0.9 and kind(comp) == "p":
            # a parameterized bound that mentions further variables: the "open position" case
            bound = self.pattern_of(comp, 0.6, top=True)
        else:
            bound = tb.ground(1, False)
        v = tp.TypeParameter(nm, tp.Invariant, bound)
        self.env.append((v, comp))
        return v

    def var_for(self, comp):
        rng = self.rng
        if self.env and rng.random() < 0.35:
            same = [v for v, c in self.env if c is not None and c == comp]
            if same and rng.random() < 0.8:
                return rng.choice(same)               # repeated variable, same component
            return rng.choice(self.env)[0]            # repeated variable, (probably) a conflict
        return self.fresh(comp)

    def comp(self, c, pvar):
        """pattern for one component (an argument that is not a wildcard, or a wildcard's bound)"""
        rng = self.rng
        r = rng.random()
        if r < pvar:
            return self.var_for(c)
        if kind(c) == "p" and r < pvar + 0.25:
            return self.pattern_of(c, pvar, top=True)
        if r > 0.96:
            return self.tb.ground(1, False)           # a mismatch
        return c

    def pattern_of(self, t, pvar=0.5, top=False, flip=0.04):
        tp, rng = self.tp, self.rng
        if kind(t) != "p":
            return self.comp(t, pvar)
        args = []
        for a in t.type_args:
            if kind(a) == "w":
                r = rng.random()
                if a.bound is None:
                    if r < 0.08:
                        args.append(tp.WildCardType(self.var_for(None), tp.Covariant))
                    else:
                        args.append(a)
                elif r < 0.5:
                    var = a.variance
                    if rng.random() < flip:
                        var = tp.Covariant if a.variance.is_contravariant() else tp.Contravariant
                    args.append(tp.WildCardType(self.comp(a.bound, pvar), var))
                elif r < 0.6:
                    args.append(self.var_for(a))      # a variable standing for the whole projection
                else:
                    args.append(a)
            else:
                args.append(self.comp(a, pvar))
        try:
            return t.t_constructor.new(args)
        except Exception:
            return t


def gen_cases(rng, ntables, per_table):
    """(target, pattern, factory, same_type, stratum)"""
    import src.ir.types as tp
    cases = []
    for _ in range(ntables):
        tb = gen_types.Table(rng, pbound=0.3)
        scope = tuple(tb.scope_vars())
        for _ in range(per_table):
            fac = tb.bt if rng.random() < 0.93 else None
            r = rng.random()
            ab = Abstractor(tb, rng)
            if r < 0.5:
                t = tb.ground(3 if rng.random() < 0.3 else 2, True, scope if rng.random() < 0.25 else ())
                if kind(t) != "p" and rng.random() < 0.7 and (tb.cons or tb.builtin_cons):
                    t = tb.inst(rng.choice(tb.cons + tb.builtin_cons), 2, True, ())
                p = ab.pattern_of(t, rng.choice([0.3, 0.5, 0.7]))
                cases.append((t, p, fac, rng.random() < 0.8, "derived"))
            elif r < 0.68:
                # supertype mode: the pattern is derived from an element of the last-supertype chain
                t = tb.ground(2, True, ())
                ch = ul.chain(t, False)
                s = rng.choice(ch)
                p = ab.pattern_of(s, rng.choice([0.3, 0.6])) if kind(s) == "p" else ab.comp(s, 0.5)
                cases.append((t, p, fac, False, "supertype-mode"))
            elif r < 0.8:
                # a type variable as pattern (the three variable cases), targets of every kind
                t = rng.choice(scope) if rng.random() < 0.5 else tb.any_type(2)
                v = rng.choice(scope) if rng.random() < 0.6 else ab.fresh(t if kind(t) != "w" else None)
                cases.append((t, v, fac, rng.random() < 0.5, "variable-pattern"))
            elif r < 0.9:
                cases.append((tb.any_type(2), tb.any_type(2), fac, rng.random() < 0.5, "unrelated"))
            elif r < 0.95:
                t = tb.ground(2, True, scope)
                p = tb.related_variant(t)
                cases.append((t, p, fac, rng.random() < 0.5, "variant"))
            else:
                cases.append((tb.any_type(2, True), tb.any_type(2, True), fac, rng.random() < 0.5, "malformed"))
    return cases


def corpus_cases():
    import src.ir.types as tp
    import src.ir.kotlin_types as kt
    import src.ir.java_types as jt
    f = kt.KotlinBuiltinFactory()
    S, I = kt.String, kt.Integer
    T, T2 = tp.TypeParameter("T"), tp.TypeParameter("T2")
    A = tp.TypeConstructor("A", [tp.TypeParameter("X")])
    P = tp.TypeConstructor("P", [tp.TypeParameter("X"), tp.TypeParameter("Y")])
    B = tp.SimpleClassifier("B", [A.new([S])])
    X = tp.TypeParameter("X")
    TB = tp.TypeParameter("T", bound=A.new([X]))
    out = [(t, p, f, True, "corpus") for _, _, t, p, _, _ in ul.witnesses()]
    out += [
        (A.new([S]), A.new([T]), f, True, "corpus"), (S, T, f, False, "corpus"), (S, T, f, True, "corpus"),
        (P.new([S, T2]), P.new([T, T2]), f, True, "corpus"), (A.new([S]), A.new([I]), f, True, "corpus"),
        (P.new([S, I]), P.new([S, T]), f, True, "corpus"), (P.new([S, I]), P.new([I, T]), f, True, "corpus"),
        (B, A.new([T]), f, False, "corpus"), (B, A.new([T]), f, True, "corpus"),
        (P.new([S, I]), P.new([T, T]), f, True, "corpus"), (P.new([S, S]), P.new([T, T]), f, True, "corpus"),
        (P.new([A.new([S]), A.new([X])]), P.new([TB, TB]), f, True, "corpus"),       # open variable reassigned
        (P.new([A.new([S]), I]), P.new([TB, T2]), f, True, "corpus"),                # open position
        (A.new([S]), tp.SimpleClassifier("A"), f, False, "corpus"),                  # AttributeError: no t_constructor
        (A.new([tp.Nothing]), A.new([tp.Nothing]), f, True, "corpus"),               # NotImplementedError
        (T, T2, f, True, "corpus"), (TB, T2, f, True, "corpus"), (T2, TB, f, True, "corpus"),
        (tp.TypeParameter("Z", bound=S), tp.TypeParameter("W", bound=kt.Any), f, True, "corpus"),
        (tp.TypeParameter("Z", bound=kt.Any), tp.TypeParameter("W", bound=S), f, True, "corpus"),
        (T, TB, None, True, "corpus"),
        (jt.IntegerType(primitive=True), jt.Integer, jt.JavaBuiltinFactory(), False, "corpus"),
        (A.new([tp.WildCardType(S, tp.Covariant)]), A.new([T]), f, True, "corpus"),
        (A.new([tp.WildCardType(S, tp.Covariant), ][:1]), A.new([tp.WildCardType(T, tp.Covariant)]), f, True, "corpus"),
    ]
    return out


def nontrivial(rq, ia):
    return ia is True and bool(rq.get("expect"))


def run_cases(run, label, cases, variant):
    rqs, impl, results = [], [], []
    for t, p, fac, st, stratum in cases:
        rq, ia, res = ul.to_request(t, p, fac, st, variant=variant)
        rqs.append(rq)
        impl.append(ia)
        results.append(res)
        run.tally("strata", stratum)
        run.tally("impl_answers", "dict-nonempty" if (ia is True and res) else "dict-empty" if ia is True else ia)
        if ia is True and res:
            run.tally("positive_by_stratum", stratum)
    diffs = compare_stream(run, rqs, impl, label, nontrivial=nontrivial)
    # the implementation against the property as stated (model-independent)
    bad = 0
    for (t, p, fac, st, stratum), res, rq, ia in zip(cases, results, rqs, impl):
        if res is None:
            continue
        verdict, how = ul.judge(t, p, fac, st, res)
        run.tally("judge", how)
        if verdict is not None:
            bad += 1
            run.violation({"kind": "failing-input", "what": verdict[1], "target": export.short(t),
                           "pattern": export.short(p), "same_type": st, "result": ul.short_answer(lambda: res),
                           "request": rq, "implementation": ia}, signature=verdict[0])
        if ia == "AttributeError" and star_in_pattern_position(t, p):
            pass
    for (t, p, fac, st, stratum), ia, rq in zip(cases, impl, rqs):
        if ia == "AttributeError" and star_in_pattern_position(t, p):
            run.tally("judge", "star-raises")
            run.violation({"kind": "failing-input", "what": "a star projection in the pattern raises AttributeError "
                           "instead of giving the empty assignment", "target": export.short(t),
                           "pattern": export.short(p), "request": rq, "implementation": ia}, signature=ul.SIG_STAR)
    if diffs:
        i, rq, ia, ma = diffs[0]
        t, p, fac, st, stratum = cases[i]
        run.violation({"kind": "broken-correspondence", "correspondence": "unify_types vs Model/Unify (%s)" % label,
                       "target": export.short(t), "pattern": export.short(p), "same_type": st,
                       "request": rq, "implementation": ia, "model": ma},
                      signature="unify.run:model-differs", no_input=True)
    pos = sum(1 for ia, res in zip(impl, results) if ia is True and res)
    run.log("stream %s: %d cases, %d positive (%.1f%%), %d differ, %d judged not a unifier"
            % (label, len(cases), pos, 100.0 * pos / max(1, len(cases)), len(diffs), bad))
    return len(cases), pos, len(diffs)


def star_in_pattern_position(t, p):
    """is the AttributeError explained by a star projection of the pattern met by the loop
    (both arguments wildcards, the pattern's one bound-less)?"""
    if kind(t) != "p" or kind(p) != "p":
        return False
    for a, b in zip(t.type_args, p.type_args):
        if kind(b) == "w" and kind(a) == "w":
            if b.bound is None:
                return True
            if a.bound is not None and star_in_pattern_position(a.bound, b.bound):
                return True
        elif kind(b) == "p" and kind(a) == "p" and star_in_pattern_position(a, b):
            return True
        elif kind(b) == "v" and b.bound is not None and kind(a) == "p" and star_in_pattern_position(a, b.bound):
            return True
    sup = getattr(t, "supertypes", None)
    return False


def generator_stream(run, nprog, variant):
    import pipeline
    specs = []
    for i in range(nprog):
        lang = pipeline.LANGS[i % 4]
        specs.append({"lang": lang, "seed": run.seed * 100003 + i, "switches": (0, 0, 0, 0), "max_depth": 6,
                      "stages": ["gen", "overwrite"] if i % 2 else ["gen"], "export": False, "cap": 60 if run.tier == "quick" else 120,
                      "plugins": ["plug_unify"], "unify_variant": variant})
    results = pipeline.run_many(specs, workers=20 if nprog <= 20 else None)
    rqs, impl = [], []
    seen = set()
    calls = cut = exc = 0
    judged = {}
    for r in results:
        if "cutoff" in r:
            cut += 1
        if "exception" in r:
            exc += 1
        pl = r.get("plugins", {}).get("plug_unify", {})
        if "error" in pl:
            raise common.HarnessError("plug_unify: " + pl["error"])
        calls += pl.get("calls", 0)
        for k, v in pl.get("judged", {}).items():
            judged[k] = judged.get(k, 0) + v
        for b in pl.get("bad", []):
            run.violation({"kind": "failing-input", "what": b["what"], "request": b["request"],
                           "implementation": b["implementation"], "program": r["spec"]}, signature=b["signature"])
        for rq, ia, nonempty in pl.get("records", []):
            k = canon(rq)
            if k in seen:
                continue
            seen.add(k)
            rqs.append(rq)
            impl.append(ia)
            run.tally("generator_answers", "dict-nonempty" if (ia is True and nonempty) else
                      "dict-empty" if ia is True else ia)
    run.cov["generator_programs"] = nprog
    run.cov["generator_cutoffs"] = cut
    run.cov["generator_exceptions"] = exc
    run.cov["generator_unify_calls"] = calls
    run.cov["generator_distinct_calls"] = len(rqs)
    run.cov["generator_judged"] = judged
    diffs = compare_stream(run, rqs, impl, "generator", nontrivial=nontrivial) if rqs else []
    if diffs:
        i, rq, ia, ma = diffs[0]
        run.violation({"kind": "broken-correspondence", "correspondence": "unify_types vs Model/Unify (generator calls)",
                       "request": rq, "implementation": ia, "model": ma},
                      signature="unify.run:model-differs", no_input=True)
    run.log("generator: %d programs (%d cut off, %d exceptions), %d calls, %d distinct, %d differ; judged %s"
            % (nprog, cut, exc, calls, len(rqs), len(diffs), judged))


def check_witnesses(run, variant):
    """the counterexample theorems of Props/C10.lean, replayed on the real code and on the model
    of the unchanged tree"""
    import src.ir.type_utils as tu
    import src.ir.kotlin_types as kt
    fac = kt.KotlinBuiltinFactory()
    for name, sig, t, p, asis, rep in ul.witnesses():
        a = ul.short_answer(lambda: tu.unify_types(t, p, fac))
        run.tally("witness_" + name, "asIs" if a == asis else "repaired" if a == rep else "other")
        rq, ia, res = ul.to_request(t, p, fac, True, variant="asIs")
        rq.pop("expect", None)
        m = common.run_driver([rq])[0].get("r")
        want = "AttributeError" if asis == "AttributeError" else None
        model_asis = m if isinstance(m, str) else [(e[0]["name"], "None" if e[1] is None else e[1].get("name")) for e in m]
        if (want is not None and m != want) or (want is None and model_asis != [tuple(x) for x in asis]):
            run.violation({"kind": "broken-proof", "what": "the model of the unchanged tree no longer reproduces the "
                           "witness " + name, "model": m}, signature="unify.witness:" + name, no_input=True)
        if a == asis:
            # the defect is present in the tree: a failing input of the property
            run.violation({"kind": "failing-input", "what": "witness %s: unify_types(%s, %s) = %s"
                           % (name, export.short(t), export.short(p), a), "request": rq, "implementation": ia},
                          signature=sig)


def check(run):
    proofs_ok = run.build_and_audit()
    rng = run.rng
    quick = run.tier == "quick"
    variant, detail = ul.detect_variant()
    cur = common.run_driver([{"op": "unify.current"}])[0].get("r")
    run.cov["tree_variant"] = variant
    run.cov["lean_current_variant"] = cur
    run.log("tree implements variant %s (%s); Lean `Variant.current` = %s" % (variant, ", ".join(detail), cur))
    if variant.startswith("mixed"):
        variant_rq = "asIs"
    else:
        variant_rq = variant
    if cur != variant and not variant.startswith("mixed"):
        if variant == "asIs":
            # the Lean side claims the repaired code (no hypotheses) but the tree is not repaired
            run.violation({"kind": "broken-proof", "what": "Variant.current = repaired but the tree implements the "
                           "unchanged unify_types", "detail": detail}, signature="unify.variant:lean-ahead-of-tree",
                          no_input=True)
        else:
            run.assumptions.append("the tree implements the repaired unify_types; switch Heph.Unify.Variant.current to "
                                   ".repaired to drop the hypotheses of unify_sound")
    run.cov["rule"] = ("(target, pattern, factory, same_type) over random completed class tables: patterns derived from "
                       "targets (or from an element of the last-supertype chain) by replacing arguments / projection "
                       "bounds / nested arguments with fresh, bounded (satisfied bound, parameterized bound mentioning "
                       "further variables, unrelated bound) and repeated type variables, a few flipped projections and "
                       "mismatches; variable patterns; unrelated, variant and malformed pairs; plus all unify_types "
                       "calls of real generator (+TypeOverwriting) runs; compared: the dict by value in insertion order "
                       "and exception kinds, against the model variant the tree implements; non-trivial = non-empty dict")
    check_witnesses(run, variant_rq)
    n1, p1, d1 = run_cases(run, "corpus", corpus_cases(), variant_rq)
    n2, p2, d2 = run_cases(run, "tables", gen_cases(rng, 60 if quick else 3000, 50 if quick else 80), variant_rq)
    run.cov["positive_rate_tables"] = round(p2 / max(1, n2), 4)
    run.cov["positive_rate_required"] = 0.30
    if p2 < 0.30 * n2:
        raise common.HarnessError("positive rate of the derived-pattern stream is %.1f%% (< 30%%)" % (100.0 * p2 / n2))
    generator_stream(run, 20 if quick else 400, variant_rq)
    if not proofs_ok and not run.violations:
        run.violation({"kind": "broken-proof", "obligations": run.broken}, signature="proof", no_input=True)


def replay(run, rp):
    rq = rp["request"]
    ans = common.run_driver([rq])[0]
    run.count({"request": rq, "model": ans})
    run.cov["rule"] = "replay of one request (model side; the request carries exported types and the expected dict)"
    run.log("model answer:", canon(ans)[:300], "recorded implementation answer:", rp.get("implementation"))
    if ans.get("r") != rp.get("implementation"):
        run.violation(rp, signature=rp.get("signature"), no_input=rp.get("kind") != "failing-input")
