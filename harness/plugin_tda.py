"""Pipeline plugin (see CONVENTIONS, "Shared infrastructure"): records, inside the worker,
what TypeErasure / TypeOverwriting do with the type graph.

For every function analysed by `TypeErasure.visit_func_decl` in which at least one omittable
node exists:
  * the type graph AS BUILT, i.e. as it is when the pre-filter
    `[n for n in omittable_nodes if is_combination_feasible(type_graph, (n,))]` starts
    (nodes numbered: keys in dict order, then targets that are not keys),
  * the omittable list (key order), every pre-filter query with its answer, the combination
    queries (all of them up to COMBO_KEEP, otherwise the first ones, a reservoir sample of
    the rest and the last one) with their answers and the total number asked,
  * the combination applied and which of its nodes changed the program
    (a declared type / an explicit type-argument list that was still present).
For TypeOverwriting: the candidate nodes of the selected method, the chosen node (and type
parameter), the argument and result of the top-level `find_irrelevant_type` call (types by
value in a fresh `export.TypeTable`), the message.

collect() -> {"erase": {"tt": [...], "functions": [...]}, "overwrite": {...} | None, "bnames": …}
"""
import random as _pyrandom

from export import TypeTable

COMBO_KEEP = 120          # all combination queries are kept up to this many per function
COMBO_HEAD = 40
COMBO_SAMPLE = 60
EXTRA_COMBOS = 6       # random combinations asked on the graph as built, per function
MAX_NODES = 4000          # graphs larger than this are not exported (counted)

KIND = {"TypeNode": "type", "DeclarationNode": "decl", "TypeConstructorInstantiationCallNode": "instcall",
        "TypeConstructorInstantiationDeclNode": "instdecl", "TypeVarNode": "tvar"}


def _kind(n):
    return KIND.get(type(n).__name__, "other")


class _Fn:
    """record of one visit_func_decl of TypeErasure"""

    def __init__(self, state, ns):
        self.state = state
        self.ns = list(ns)
        self.index = None
        self.nodes = None
        self.edges = None
        self.omittable = None
        self.singles = []
        self.combos_head = []
        self.combos_sample = []
        self.combo_last = None
        self.n_combos = 0
        self.had = {}
        self.too_big = False
        self.extra = []
        self.rng = _pyrandom.Random(state["seed"] * 7919 + len(state["functions"]))

    # -- snapshot of the graph before the first query
    def snapshot(self, graph):
        import src.ir.types as tp
        import src.ir.ast as ast
        from src.analysis import type_dependency_analysis as tda
        tt = self.state["tt"]
        index, order = {}, []
        for k in graph.keys():
            if k not in index:
                index[k] = len(order)
                order.append(k)
        for k in list(graph.keys()):
            for e in graph[k]:
                if e.target not in index:
                    index[e.target] = len(order)
                    order.append(e.target)
        if len(order) > MAX_NODES:
            self.too_big = True
        self.index = index
        self.order = order
        self.snap = dict(graph)     # the code rebinds keys and never mutates an edge list in place
        nodes = []
        for i, n in enumerate(order):
            k = _kind(n)
            d = {"k": k, "id": _safe(lambda: n.node_id), "s": str(n)}
            if k == "type":
                d["pid"] = n.parent_id
            if k == "decl":
                t = _safe(lambda: n.decl.get_type())
                d["decl"] = {"name": n.decl.name, "cls": type(n.decl).__name__}
            else:
                t = getattr(n, "t", None)
            if t is None:
                d["tk"], d["t"] = "none", None
            elif isinstance(t, tp.Type):
                d["tk"], d["t"] = "ty", tt.add(t)
            else:
                d["tk"], d["t"] = "other", None
                d["tcls"] = type(t).__name__
            if k == "instcall":
                try:
                    d["assign"] = [[tt.add(p), tt.add(a)] for p, a in n.t.get_type_variable_assignments().items()]
                except Exception as e:  # noqa: BLE001
                    d["assign"] = []
                    d["assign_error"] = type(e).__name__
            om = bool(n.is_omittable())
            if om:
                d["om"] = True
                if k == "decl":
                    if isinstance(n.decl, ast.VariableDeclaration):
                        had = n.decl.var_type is not None and n.decl.name != tda.RET
                    elif isinstance(n.decl, ast.FunctionDeclaration):
                        had = n.decl.ret_type is not None
                    else:
                        had = False
                elif k == "instcall":
                    had = not bool(getattr(n.t, "can_infer_type_args", False))
                else:
                    had = False
                self.had[i] = had
                d["had"] = had
            nodes.append(d)
        # ground truth for the harness's reference judge: classes of the real `==` on the types
        # the nodes carry, and the real dict lookup `type_assignments[tvar.t]`
        reps = []

        def cls(t):
            if t is None:
                return "none"
            if not isinstance(t, tp.Type):
                return "other"
            for ci, r in enumerate(reps):
                try:
                    if r == t:
                        return ci
                except Exception:  # noqa: BLE001
                    pass
            reps.append(t)
            return len(reps) - 1
        for i, n in enumerate(order):
            k = nodes[i]["k"]
            nodes[i]["tc"] = cls(_safe(lambda: n.decl.get_type()) if k == "decl" else getattr(n, "t", None))
        for i, n in enumerate(order):
            if nodes[i]["k"] != "instcall":
                continue
            asg = {}
            try:
                ta = n.t.get_type_variable_assignments()
            except Exception:  # noqa: BLE001
                ta = None
            for j, m in enumerate(order):
                if nodes[j]["k"] != "tvar":
                    continue
                try:
                    asg[str(j)] = cls(ta[m.t])
                except Exception as e:  # noqa: BLE001
                    asg[str(j)] = "!" + type(e).__name__
            nodes[i]["asg"] = asg
        self.nodes = nodes
        self.edges = [[index[k], [[index[e.target], 1 if e.is_declared() else 0] for e in graph[k]]]
                      for k in graph.keys()]
        self.omittable = [index[k] for k in graph.keys() if k.is_omittable()]

    def query(self, combination, answer):
        c = [self.index.get(n, -1) for n in combination]
        if len(self.singles) < len(self.omittable):
            self.singles.append([c, answer])
            return
        self.n_combos += 1
        q = [self.n_combos - 1, c, answer]
        self.combo_last = q
        if self.n_combos <= COMBO_KEEP:
            self.combos_head.append(q)
            return
        if self.n_combos == COMBO_KEEP + 1:
            # the function asks many: keep the head, sample the rest (reservoir)
            rest = self.combos_head[COMBO_HEAD:]
            self.combos_head = self.combos_head[:COMBO_HEAD]
            self.combos_sample = self.rng.sample(rest, min(COMBO_SAMPLE, len(rest)))
        j = self.rng.randrange(self.n_combos - COMBO_HEAD)
        if j < len(self.combos_sample):
            self.combos_sample[j] = q

    def extras(self, feasible):
        """answers of the real test for random combinations on a copy of the graph as built"""
        out = []
        if self.too_big or not self.omittable:
            return out
        om = self.omittable
        for _ in range(EXTRA_COMBOS):
            k = self.rng.randint(1, min(len(om), 6))
            c = self.rng.sample(om, k)
            if self.rng.random() < 0.5:
                c.sort()
            try:
                a = bool(feasible(dict(self.snap), tuple(self.order[i] for i in c)))
            except Exception as e:  # noqa: BLE001
                a = type(e).__name__
            out.append([c, a])
        return out

    def to_json(self):
        applied = None
        if self.combo_last is not None and self.combo_last[2] is True:
            applied = self.combo_last[1]
        combos = list(self.combos_head)
        seen = {q[0] for q in combos}
        for q in sorted(self.combos_sample, key=lambda q: q[0]):
            if q[0] not in seen:
                combos.append(q)
                seen.add(q[0])
        if self.combo_last is not None and self.combo_last[0] not in seen:
            combos.append(self.combo_last)
        out = {"ns": self.ns, "omittable": self.omittable, "singles": self.singles, "combos": combos,
               "n_combos": self.n_combos, "applied": applied,
               "effect": [i for i in (applied or []) if self.had.get(i)]}
        if self.too_big:
            out["too_big"] = len(self.nodes)
        else:
            out["nodes"] = self.nodes
            out["edges"] = self.edges
        out["extra"] = self.extra
        return out


def _safe(f):
    try:
        return f()
    except Exception as e:  # noqa: BLE001
        return "!" + type(e).__name__


def builtin_names():
    """[[str(class), primitive?, `.name`]] for the builtin classes of every language: `Builtin.__str__`
    prints `.name`, which for Java/Groovy primitives differs from `get_name()`"""
    import src.ir.types as tp
    import src.ir.java_types as jt
    import src.ir.groovy_types as gt
    import src.ir.kotlin_types as kt
    import src.ir.scala_types as st
    out = {}
    for fac in (jt.JavaBuiltinFactory(), gt.GroovyBuiltinFactory(), kt.KotlinBuiltinFactory(),
                st.ScalaBuiltinFactory()):
        for t in fac.get_non_nothing_types():
            if isinstance(t, tp.Builtin):
                out[str(type(t))] = str(t.name)
    return sorted(out.items())


def install(state, spec):
    from src.analysis import type_dependency_analysis as tda
    from src.transformations.type_erasure import TypeErasure
    from src.transformations.type_overwriting import TypeOverwriting
    from src.ir import type_utils as tu
    from src import utils
    state["seed"] = int(spec.get("seed", 0))
    state["tt"] = TypeTable()
    state["functions"] = []
    state["cur"] = None
    state["overwrite"] = None
    state["mode"] = None
    state["orig"] = {
        "feasible": tda.is_combination_feasible,
        "te_visit": TypeErasure.visit_func_decl,
        "to_visit": TypeOverwriting.visit_func_decl,
        "find_irr": tu.find_irrelevant_type,
    }
    orig = state["orig"]

    def feasible(type_graph, combination):
        cur = state["cur"]
        if cur is None:
            return orig["feasible"](type_graph, combination)
        if cur.index is None:
            cur.snapshot(type_graph)
        try:
            r = orig["feasible"](type_graph, combination)
        except Exception as e:  # noqa: BLE001
            cur.query(combination, type(e).__name__)
            raise
        cur.query(combination, bool(r))
        return r

    def te_visit(self, node):
        fn = _Fn(state, self._namespace + (node.name,))
        prev = state["cur"]
        state["cur"] = fn
        ok = False
        try:
            r = orig["te_visit"](self, node)
            ok = True
            return r
        finally:
            state["cur"] = None
            pending = None
            if fn.index is not None:
                if ok:
                    try:
                        fn.extra = fn.extras(orig["feasible"])
                    except BaseException as e:  # noqa: BLE001  (a cut-off inside the extra queries)
                        pending = e
                j = fn.to_json()
                if not ok:
                    j["partial"] = True
                state["functions"].append(j)
            state["cur"] = prev
            if pending is not None:
                raise pending

    def find_irr(etype, types, factory):
        ow = state.get("ow_cur")
        if ow is None or ow["depth"] > 0:
            if ow is not None:
                ow["depth"] += 1
            try:
                return orig["find_irr"](etype, types, factory)
            finally:
                if ow is not None:
                    ow["depth"] -= 1
        ow["depth"] += 1
        try:
            r = orig["find_irr"](etype, types, factory)
        finally:
            ow["depth"] -= 1
        ow["calls"].append((etype, r))
        return r

    def to_visit(self, node):
        if self._method_selection:
            return orig["to_visit"](self, node)
        sel = self._selected_method
        if sel is None or sel[0] != self._namespace + (node.name,):
            return orig["to_visit"](self, node)
        namespace, candidate_nodes, type_graph = sel
        ow = {"depth": 0, "calls": [], "choices": []}
        state["ow_cur"] = ow
        rnd = utils.random
        orig_choice = rnd.choice

        def choice(seq):
            r = orig_choice(seq)
            if ow["depth"] == 0:
                ow["choices"].append((seq is candidate_nodes, r))
            return r
        rnd.choice = choice
        was = bool(self.is_transformed)
        try:
            res = orig["to_visit"](self, node)
        finally:
            try:
                del rnd.choice
            except AttributeError:
                rnd.choice = orig_choice
            state["ow_cur"] = None
        tt = TypeTable()
        chosen = None
        tparam = None
        for is_cand, r in ow["choices"]:
            if is_cand and chosen is None:
                chosen = r
            elif chosen is not None and tparam is None and _kind(r) == "tvar":
                tparam = r
        rec = {"ns": list(namespace),
               "candidates": [{"k": _kind(n), "id": _safe(lambda: n.node_id), "s": str(n)} for n in candidate_nodes],
               "chosen": None if chosen is None else {"k": _kind(chosen), "id": _safe(lambda: chosen.node_id),
                                                      "s": str(chosen),
                                                      "decl_cls": type(chosen.decl).__name__ if _kind(chosen) == "decl" else None,
                                                      "t_cls": type(getattr(chosen, "t", None)).__name__},
               "tparam": None if tparam is None else {"name": str(tparam.t.name), "id": _safe(lambda: tparam.node_id)},
               "injected": bool(self.is_transformed) and not was,
               "message": self.error_injected,
               "find_calls": len(ow["calls"])}
        if ow["calls"]:
            old, new = ow["calls"][0]
            rec["old"] = tt.add(old)
            rec["new"] = tt.add(new)
            rec["old_str"] = str(old)
            rec["new_str"] = None if new is None else str(new)
            if new is not None:
                # the real relation tests on the very objects (ground truth for `unrelated`)
                rec["rel_impl"] = [_safe(lambda: bool(old.is_subtype(new))), _safe(lambda: bool(new.is_subtype(old))),
                                   _safe(lambda: bool(old.is_assignable(new))), _safe(lambda: bool(new.is_assignable(old)))]
                rec["old_cls"], rec["new_cls"] = type(old).__name__, type(new).__name__
        rec["tt"] = tt.entries
        state["overwrite"] = rec
        return res

    tda.is_combination_feasible = feasible
    TypeErasure.visit_func_decl = te_visit
    TypeOverwriting.visit_func_decl = to_visit
    tu.find_irrelevant_type = find_irr


def uninstall(state):
    from src.analysis import type_dependency_analysis as tda
    from src.transformations.type_erasure import TypeErasure
    from src.transformations.type_overwriting import TypeOverwriting
    from src.ir import type_utils as tu
    orig = state.get("orig")
    if not orig:
        return
    tda.is_combination_feasible = orig["feasible"]
    TypeErasure.visit_func_decl = orig["te_visit"]
    TypeOverwriting.visit_func_decl = orig["to_visit"]
    tu.find_irrelevant_type = orig["find_irr"]


def collect(state):
    fns = list(state.get("functions", []))
    return {"erase": {"tt": state["tt"].entries, "functions": fns},
            "overwrite": state.get("overwrite")}
