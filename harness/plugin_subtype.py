"""Pipeline plugin: records every TOP-LEVEL is_subtype / is_assignable query issued while the
real generator (and mutations) run, by value at call time, deduplicated by structural digest.
Used by check_C06 (stream 'generator queries')."""
import export
import src.ir.types as tp

LIMIT = 4000


def _classes():
    seen, out = set(), []
    import src.ir.builtins as bt
    import src.ir.java_types as jt
    import src.ir.kotlin_types as kt
    import src.ir.groovy_types as gt
    import src.ir.scala_types as st
    for mod in (tp, bt, jt, kt, gt, st):
        for name in dir(mod):
            c = getattr(mod, name)
            if isinstance(c, type) and issubclass(c, tp.Type) and c not in seen:
                seen.add(c)
                out.append(c)
    return out


def install(state, spec):
    state["depth"] = 0
    state["seen"] = set()
    state["queries"] = []
    state["orig"] = []
    state["total"] = 0

    def wrap(cls, meth):
        f = cls.__dict__.get(meth)
        if f is None or not callable(f):
            return
        state["orig"].append((cls, meth, f))

        def wrapped(self, other, _f=f, _m=meth):
            top = state["depth"] == 0
            state["depth"] += 1
            try:
                r = _f(self, other)
                err = None
            except Exception as e:
                r, err = None, type(e).__name__
                raise
            finally:
                state["depth"] -= 1
                if top:
                    state["total"] += 1
                    if len(state["queries"]) < LIMIT:
                        memo = {}
                        key = (_m, export.digest(self, memo), export.digest(other, memo))
                        if key not in state["seen"]:
                            state["seen"].add(key)
                            tt = export.TypeTable()
                            rq = {"op": "types.subtype" if _m == "is_subtype" else "types.assignable",
                                  "s": tt.add(self), "t": tt.add(other)}
                            rq["tt"] = tt.entries
                            state["queries"].append({"rq": rq, "impl": bool(r) if err is None else err,
                                                     "s": export.short(self), "t": export.short(other)})
            return r
        setattr(cls, meth, wrapped)

    for cls in _classes():
        wrap(cls, "is_subtype")
        wrap(cls, "is_assignable")


def collect(state):
    return {"total_calls": state.get("total", 0), "queries": state.get("queries", [])}


def uninstall(state):
    for cls, meth, f in state.get("orig", []):
        setattr(cls, meth, f)
    state["orig"] = []
