"""C02, structured stream: the hand-built IR family (`ir_family`) through the REAL JavaTranslator under branch
coverage (`cov_trans`), the Lean model (op trans.java) and javac.

For every family member of the slice (quick) / of the whole family (thorough):
  * `export_program` before and after the translation are equal (the translation does not change the program, and the
    by-value export — what the Lean model reads — is a function of the program),
  * model text == real text, byte for byte; when the real translator raises, the model's text carries an error mark,
  * javac (tool's own command line, batches) accepts the real text when the member is a valid target program.
On a text difference the failing-input search compiles the real text of that member and of its neighbours in the
family (members that share two of the three coordinates): a rejected file is a failing input (replay = family index,
name, by-value export, emitted file, javac message); otherwise the difference is reported as a broken correspondence
without failing input.
"""
import json
import os
import time

import common
from common import HarnessError
import cov_trans
import export_ast
import ir_family
import trans_java

QUICK_N = int(os.environ.get("C02_FAMILY_QUICK", "900"))
JAVAC_BATCH = 350


def _translate_members(idx, package_prefix, with_cov=True):
    """build + translate in this process; returns (records, raw coverage report).  A record:
    {i, name, skip | (valid, real | exc, export_equal, java_export)}"""
    from src import utils
    import src.translators.java as J
    ms = ir_family.members("java")
    cov = cov_trans.Coverage(J) if with_cov else None
    out = []
    if cov:
        cov.__enter__()
    try:
        for i in idx:
            m = ms[i]
            rec = {"i": i, "name": m.name}
            try:
                p, valid = ir_family.build(m, "java")
            except ir_family.Skip as e:
                rec["skip"] = str(e)
                out.append(rec)
                continue
            rec["valid"] = valid
            ex0 = json.dumps(export_ast.export_program(p), sort_keys=True)
            rec["java_export"] = trans_java.export_java(p)
            pkg = "%s%05d" % (package_prefix, i)
            try:
                rec["real"] = utils.translate_program(J.JavaTranslator("src." + pkg, {}), p)
            except Exception as e:      # ill-formed member (e.g. untyped null where a type is printed): the model marks it
                rec["exc"] = type(e).__name__
            rec["pkg"] = pkg
            if i % 10 == 3 and "real" in rec:      # the same program without a package (JavaTranslator(None))
                try:
                    rec["real_nopkg"] = utils.translate_program(J.JavaTranslator(None, {}), p)
                except Exception as e:
                    rec["real_nopkg"] = "<<raised %s>>" % type(e).__name__
            rec["export_equal"] = json.dumps(export_ast.export_program(p), sort_keys=True) == ex0
            out.append(rec)
    finally:
        if cov and cov._on:
            cov.__exit__()
    return out, (cov.report() if cov else None)


def _worker(args):
    import pipeline
    pipeline.setup()
    return _translate_members(*args)


def translate_members(idx, package_prefix, workers):
    if workers <= 1 or len(idx) < 400:
        return _translate_members(idx, package_prefix)
    import multiprocessing as mp
    chunks = [idx[k::workers * 4] for k in range(workers * 4)]
    with mp.get_context("fork").Pool(workers) as pool:
        parts = pool.map(_worker, [(c, package_prefix) for c in chunks if c])
    recs = sorted((r for p in parts for r in p[0]), key=lambda r: r["i"])
    return recs, cov_trans.merge([p[1] for p in parts])


def run_family(run, st, quick, compile_batch, pool):
    """returns (records of the slice, coverage report, javac futures to be finished with `finish_javac`)"""
    ms = ir_family.members("java")
    t0 = time.time()
    # thorough: 5000 expressible members (every probe / slot / context / program-level shape + a seeded sample; translation
    # and javac of the whole family, 13 400 expressible members, take 15 minutes on the shared machine: C02_FAMILY_THOROUGH=all)
    th = os.environ.get("C02_FAMILY_THOROUGH", "5000")
    idx = ir_family.quick_slice(ms, run.seed, QUICK_N) if quick else (
        list(range(len(ms))) if th == "all" else ir_family.quick_slice(ms, run.seed, int(th)))
    recs, cov = translate_members(idx, "f", 1 if quick else min(12, max(1, (os.cpu_count() or 2) - 2)))
    built = [r for r in recs if "skip" not in r]
    run.log("family: %d of %d members in the slice, %d expressible, translated in %.0fs" % (len(idx), len(ms), len(built), time.time() - t0))
    fam = run.cov.setdefault("family", {})
    fam.update({"members_total": len(ms), "slice": len(idx), "expressible": len(built),
                "inexpressible_combinations": len(recs) - len(built),
                "probes": len(ir_family.PROBES), "slots": len(ir_family.SLOTS), "contexts": len(ir_family.CONTEXTS),
                "declaration_shapes": len(ir_family.DECLS)})
    # ---- model text
    reqs = [trans_java.request(r["java_export"], "src." + r["pkg"]) for r in built]
    t1 = time.time()
    answers = common.run_driver(reqs) if reqs else []
    fam["driver_s"] = round(time.time() - t1, 1)
    n_eq = n_exc = 0
    for r, a in zip(built, answers):
        if "error" in a:
            raise HarnessError("driver error on family member %d %s: %s" % (r["i"], r["name"], a["error"]))
        r["model"] = a["r"]
        run.tally("ops", "trans.java(family)")
        run.cov["traces_validated_against_impl"] += 1
        run.count({"family": r["i"], "name": r["name"]}, nontrivial=True)
        if not r["export_equal"]:
            st["diffs"].append({"kind": "family-export-changed-by-translation", "family_index": r["i"], "name": r["name"]})
        if "exc" in r:
            n_exc += 1
            run.tally("family_real_translator_raises", r["exc"])
            if trans_java.MODEL["error_mark"] not in r["model"]:
                st["diffs"].append({"kind": "family-real-raises-model-does-not", "family_index": r["i"], "name": r["name"],
                                    "exception": r["exc"], "model": r["model"][-300:]})
            continue
        if r["model"] == r["real"]:
            n_eq += 1
            continue
        k = next((k for k in range(min(len(r["model"]), len(r["real"]))) if r["model"][k] != r["real"][k]),
                 min(len(r["model"]), len(r["real"])))
        d = {"kind": "family-text", "family_index": r["i"], "name": r["name"], "first_diff_at": k,
             "real": r["real"][max(0, k - 120):k + 120], "model": r["model"][max(0, k - 120):k + 120]}
        if "<<ERROR:unmodelled" in r["model"]:
            st["unmodelled"].append(d)
            run.tally("unmodelled_constructs(programs)", "family")
        else:
            st["diffs"].append(d)
            st.setdefault("family_diff_members", []).append(r["i"])
            if len(st["diffs"]) <= 5:
                run.log("FAMILY TEXT DIFF #%d %s at %d\n   real : %r\n   model: %r" % (r["i"], r["name"], k, d["real"], d["model"]))
    nop = [r for r in built if "real_nopkg" in r]
    if nop:
        for r, a in zip(nop, common.run_driver([trans_java.request(r["java_export"], "") for r in nop])):
            run.tally("ops", "trans.java(family, no package)")
            if a.get("r") != r["real_nopkg"]:
                st["diffs"].append({"kind": "family-text-no-package", "family_index": r["i"], "name": r["name"],
                                    "real": r["real_nopkg"][:200], "model": str(a.get("r"))[:200]})
                st.setdefault("family_diff_members", []).append(r["i"])
    fam["texts_compared_without_package"] = len(nop)
    fam.update({"texts_compared": len(built) - n_exc, "texts_equal": n_eq, "real_translator_raised(model marks)": n_exc})
    run.log("family: %d texts compared with the model, %d equal (%.0fs driver)" % (len(built) - n_exc, n_eq, fam["driver_s"]))
    # ---- javac on the valid members
    files = [{"pkg": r["pkg"], "text": r["real"], "stage": "family", "family_index": r["i"], "name": r["name"],
              "export": {k: r["java_export"][k] for k in ("lang", "tt", "decls", "context")}}
             for r in built if r.get("valid") and "real" in r]
    fam["valid_target_programs"] = len(files)
    fam["not_valid_target(text compared only)"] = len(built) - n_exc - len(files)
    batches = [files[a:a + JAVAC_BATCH] for a in range(0, len(files), JAVAC_BATCH)]
    futs = [(b, pool.submit(compile_batch, b)) for b in batches]
    return recs, cov, futs


def finish_javac(run, st, futs, diag_block, signature):
    t0 = time.time()
    nfiles = nrej = 0
    for b, fu in futs:
        verdict, crash, out, stray = fu.result()
        if stray:
            raise HarnessError("javac reported files that were not emitted: %r" % stray[:3])
        if crash:
            st["rejections"].append({"signature": "java:compiler-crash", "file": None, "messages": [str(crash)[:500]], "diagnostic": []})
        for f in b:
            nfiles += 1
            msgs = verdict[f["pkg"]]
            run.tally("javac_verdicts", "family:%s" % ("rejected" if msgs else "accepted"))
            run.cov["traces_validated_against_impl"] += 1
            if msgs:
                nrej += 1
                blk = diag_block(out, f["pkg"])
                sig = signature("family", f["text"], msgs, blk)
                sig = "%s:%s" % (sig, f["name"].split(" @ ")[0].split(":")[0])
                run.tally("javac_rejection_signatures", sig)
                st["rejections"].append({"signature": sig, "file": f, "messages": msgs, "diagnostic": blk})
    run.cov["family"]["javac_files"] = nfiles
    run.cov["family"]["javac_rejected"] = nrej
    run.log("family: javac judged %d files in %d batches, %d rejected (waited %.0fs)" % (nfiles, len(futs), nrej, time.time() - t0))


def search_neighbours(run, st, compile_batch, already, diag_block, signature):
    """failing-input search for text differences: javac on the real text of the differing members and of their
    neighbours in the family (as far as not compiled yet); rejections are added to st['rejections']"""
    ms = ir_family.members("java")
    want = []
    for i in st.get("family_diff_members", [])[:8]:
        want += [i] + ir_family.neighbours(ms, i)
    want = [i for i in dict.fromkeys(want) if i not in already]
    run.cov["family"]["failing_input_search_members"] = len(want)
    if not want:
        return
    recs, _ = _translate_members(want, "n", with_cov=False)
    files = [{"pkg": r["pkg"], "text": r["real"], "stage": "family", "family_index": r["i"], "name": r["name"],
              "export": {k: r["java_export"][k] for k in ("lang", "tt", "decls", "context")}}
             for r in recs if r.get("valid") and "real" in r]
    if not files:
        return
    verdict, crash, out, stray = compile_batch(files)
    for f in files:
        msgs = verdict[f["pkg"]]
        run.tally("javac_verdicts", "family-neighbour:%s" % ("rejected" if msgs else "accepted"))
        if msgs:
            blk = diag_block(out, f["pkg"])
            sig = "%s:%s" % (signature("family", f["text"], msgs, blk), f["name"].split(" @ ")[0].split(":")[0])
            st["rejections"].append({"signature": sig, "file": f, "messages": msgs, "diagnostic": blk})
