"""C16 — the symbol table (src/ir/context.py) behaves like a scoped map.

proof side : lean/Heph/Props/C16.lean (theorems about lean/Heph/Model/Context.lean, by induction
             over arbitrary operation histories)
tie to code: exact step-by-step correspondence of the real `Context` (driven in process) with
             the model (`ctx.run` of hephdrv) on
               (a) a corpus of tricky sequences (incl. the witnesses of the Lean counterexamples),
               (b) random operation sequences (5 entity kinds, namespace trees of depth <= 4,
                   forced name reuse, None values, equal TypeParameters, remove_namespace),
               (c) thorough: all sequences of length <= 5 over a 21-letter alphabet,
               (d) the operation traces of real `Generator.generate()` runs (Context methods wrapped).
             An independent reference of the *specification* (`Spec`: a scoped map computed from
             the time-stamped history, no nested dictionaries) judges the real code directly.

A sequence is a list of items (JSON), see lean/Driver/Ctx.lean:
  ["add", kind5, ns, name, val] ["remove", kind5, ns, name] ["remove_namespace", ns]     mutators
  ["get", kind6, ns, only_current, glob, none] ["lookup", ns, name, limit|null] ...        queries
val = null | ["n", id, isClass] | ["t", key]   (key names the ==-class of a TypeParameter)
"""
import copy
import itertools
import json
import multiprocessing
import os
import random as _pyrandom
import sys

import common

LEVEL = "proof"

KINDS5 = ["types", "funcs", "lambdas", "vars", "classes"]
KINDS6 = KINDS5 + ["decls"]
BINDS = {"funcs", "vars", "classes"}
MUTATORS = {"add", "remove", "remove_namespace"}


# ------------------------------------------------------------------ the real code, in process
_SRC = {}


def load_src():
    """import the repository modules once (`src.ir.ast` before `src.ir.context`: circular
    import; Python's global `random` is seeded before `src.utils` is imported)"""
    if _SRC:
        return _SRC
    argv = sys.argv
    sys.argv = ["x"]
    try:
        _pyrandom.seed(0)
        from src.ir import ast, types as tp          # noqa: F401
        from src.ir import context as cm
    finally:
        sys.argv = argv
    _SRC.update(ast=ast, tp=tp, cm=cm)
    return _SRC


class Pool:
    """JSON value <-> real Python object.  Nodes: one object per id (identity).  Type
    parameters: a *fresh* object for every use, so equal-but-distinct objects occur."""

    def __init__(self):
        s = load_src()
        self.ast, self.tp = s["ast"], s["tp"]
        self.nodes = {}
        self.back = {}      # id(obj) -> json
        self.keep = []

    def obj(self, j):
        if j is None:
            return None
        if j[0] == "n":
            k = (j[1], bool(j[2]))
            o = self.nodes.get(k)
            if o is None:
                o = (self.ast.ClassDeclaration("C%d" % j[1], []) if j[2]
                     else self.ast.Variable("v%d" % j[1]))
                self.nodes[k] = o
                self.back[id(o)] = ["n", j[1], bool(j[2])]
            return o
        key = j[1]
        tp = self.tp
        if key.endswith("<:"):       # same hash as the unbounded one, not equal to it
            o = tp.TypeParameter(key[:-2], bound=tp.TypeParameter("B"))
        elif key.endswith("+"):
            o = tp.TypeParameter(key[:-1], tp.Covariant)
        elif key.endswith("-"):
            o = tp.TypeParameter(key[:-1], tp.Contravariant)
        else:
            o = tp.TypeParameter(key)
        self.keep.append(o)
        self.back[id(o)] = ["t", key]
        return o

    def canon(self, o):
        if o is None:
            return None
        return self.back[id(o)]


def canon_dict(d, canon):
    return [[k, canon(v)] for k, v in d.items()]


def sort_json(l):
    return sorted(l, key=lambda x: json.dumps(x, separators=(",", ":")))


def type_tag(t, s):
    if t is type(None):
        return "NoneType"
    if t is s["ast"].ClassDeclaration:
        return "ClassDeclaration"
    if issubclass(t, s["tp"].Type):
        return "TypeParameter"
    return "Node"


def real_dump(ctx, canon):
    c = [[list(ns), [canon_dict(e[k], canon) for k in KINDS6]] for ns, e in ctx._context.items()]
    n = sort_json([[canon(v), list(ns)] for v, ns in ctx._namespaces.items()])
    return [c, n]


def real_step(ctx, it, obj, canon):
    """apply one item to the real Context; returns (is_query, canonical answer)"""
    s = load_src()
    cm = s["cm"]
    tag = it[0]
    if tag == "add":
        getattr(ctx, {"types": "add_type", "funcs": "add_func", "lambdas": "add_lambda",
                      "vars": "add_var", "classes": "add_class"}[it[1]])(tuple(it[2]), it[3], obj(it[4]))
        return False, None
    if tag == "remove":
        getattr(ctx, {"types": "remove_type", "funcs": "remove_func", "lambdas": "remove_lambda",
                      "vars": "remove_var", "classes": "remove_class"}[it[1]])(tuple(it[2]), it[3])
        return False, None
    if tag == "remove_namespace":
        ctx.remove_namespace(tuple(it[1]))
        return False, None
    try:
        if tag == "get":
            f = {"types": ctx.get_types, "funcs": ctx.get_funcs, "lambdas": ctx.get_lambdas,
                 "vars": ctx.get_vars, "classes": ctx.get_classes, "decls": ctx.get_declarations}[it[1]]
            return True, canon_dict(f(tuple(it[2]), only_current=it[3], glob=it[4], none=it[5]), canon)
        if tag == "find_namespaces":
            return True, [list(n) for n in ctx.find_namespaces(tuple(it[1]), it[2])]
        if tag == "namespaces_decls":
            r = ctx.get_namespaces_decls(tuple(it[1]), it[2], it[3], it[4])
            return True, sort_json([[list(n), canon(d)] for n, d in r])
        if tag == "get_decl":
            return True, canon(ctx.get_decl(tuple(it[1]), it[2]))
        if tag == "get_lambda":
            return True, canon(ctx.get_lambda(tuple(it[1]), it[2]))
        if tag == "get_decl_type":
            return True, type_tag(ctx.get_decl_type(tuple(it[1]), it[2]), s)
        if tag == "declarations_in":
            r = ctx.get_declarations_in(tuple(it[1]))
            return True, [[list(n), canon_dict(d, canon)] for n, d in r.items()]
        if tag == "get_namespace":
            r = ctx.get_namespace(obj(it[1]))
            return True, None if r is None else list(r)
        if tag == "get_parent":
            return True, canon(ctx.get_parent(tuple(it[1])))
        if tag == "get_parent_class":
            return True, canon(ctx.get_parent_class(tuple(it[1])))
        if tag == "lookup":
            r = cm.get_decl(ctx, tuple(it[1]), it[2], None if it[3] is None else tuple(it[3]))
            return True, None if r is None else [list(r[0]), canon(r[1])]
        if tag == "dump":
            return True, real_dump(ctx, canon)
    except AssertionError:
        return True, "AssertionError"
    except IndexError:
        return True, "IndexError"
    raise common.HarnessError("unknown item %r" % (it,))


def run_real(items):
    """answers of the real code to the queries of `items` (fresh Context, fresh objects)"""
    s = load_src()
    pool = Pool()
    ctx = s["cm"].Context()
    out = []
    for it in items:
        q, a = real_step(ctx, it, pool.obj, pool.canon)
        if q:
            out.append(a)
    return out


def run_model(seqs):
    """answers of the model to a list of sequences"""
    res = common.run_driver([{"op": "ctx.run", "ops": s} for s in seqs])
    out = []
    for s, r in zip(seqs, res):
        if "error" in r:
            raise common.HarnessError("driver error %s on %s" % (r["error"], common.canon(s)[:300]))
        out.append(r["r"])
    return out


# ------------------------------------------------------------------ the specification, independently
def vkey(v):
    return json.dumps(v)


class Spec:
    """The scoped map of the property statement, computed from the time-stamped history alone:
    `ev[(ns, kind)][name]` is the list of (time, value|DEL) events that concern that name in
    that map; `wipe[ns]` the time of the last remove_namespace.  No nested dictionaries, no
    reverse index: every answer is recomputed from the events."""
    DEL = ("<del>",)

    def __init__(self):
        self.t = 0
        self.ev = {}
        self.wipe = {}
        self.touch = {}     # ns -> times of adds (registration of the namespace)
        self.sites = {}     # value -> set of (kind5, ns, name) it was ever added at
        self.outside = 0    # reverse-lookup queries outside the hypothesis of the theorem

    def apply(self, it):
        self.t += 1
        tag = it[0]
        if tag == "add":
            _, k, ns, name, v = it
            ns = tuple(ns)
            for kk in ([k, "decls"] if k in BINDS else [k]):
                self.ev.setdefault((ns, kk), {}).setdefault(name, []).append((self.t, v))
            self.touch.setdefault(ns, []).append(self.t)
            self.sites.setdefault(vkey(v), set()).add((k, ns, name))
        elif tag == "remove":
            _, k, ns, name = it
            ns = tuple(ns)
            for kk in ([k, "decls"] if k in BINDS else [k]):
                self.ev.setdefault((ns, kk), {}).setdefault(name, []).append((self.t, Spec.DEL))
        elif tag == "remove_namespace":
            self.wipe[tuple(it[1])] = self.t

    def cur(self, ns, kind):
        """entries of one map: a name is present iff its last event (after the last wipe of the
        namespace) is an add; its value is that add's; its position is the time of the first
        add since it was last absent"""
        ns = tuple(ns)
        w = self.wipe.get(ns, 0)
        out = []
        for name, evs in self.ev.get((ns, kind), {}).items():
            evs = [e for e in evs if e[0] > w]
            if not evs or evs[-1][1] is Spec.DEL:
                continue
            i = len(evs) - 1
            while i > 0 and evs[i - 1][1] is not Spec.DEL:
                i -= 1
            out.append((evs[i][0], name, evs[-1][1]))
        out.sort()
        return [(n, v) for _, n, v in out]

    def registered(self):
        r = []
        for ns, ts in self.touch.items():
            ts = [t for t in ts if t > self.wipe.get(ns, 0)]
            if ts:
                r.append((ts[0], ns))
        r.sort()
        return [ns for _, ns in r]

    def kids(self, ns, none):
        r = []
        for kind in ("funcs", "classes"):
            r += [tuple(ns) + (n,) for n, v in self.cur(ns, kind) if none or v is not None]
        return r

    def reachable(self, root, none):
        seen, todo = [], [tuple(root)]
        guard = 0
        while todo:
            x = todo.pop()
            guard += 1
            if guard > 200000:
                raise common.HarnessError("reference: namespace tree too large")
            if x in seen:
                continue
            seen.append(x)
            todo += self.kids(x, none)
        return seen

    def decl(self, ns, name):
        return dict(self.cur(ns, "decls")).get(name)

    def parent(self, ns):
        if len(ns) < 2:
            return None
        return self.decl(ns[:-2], ns[-2])

    def answer(self, it):
        """('eq', value) | ('pred', function answer -> None|reason) | None (no claim)"""
        tag = it[0]
        if tag == "get":
            _, kind, ns, oc, glob, none = it
            if not ns:
                return "eq", "AssertionError"
            if glob:
                return "pred", lambda a: self.glob_ok(a, ns, kind, none)
            if len(ns) == 1 or oc:
                d = self.cur(ns, kind)
            else:
                # union along the path, inner entries shadow outer ones; a name stands where
                # the outermost namespace that has it put it
                pos, val = {}, {}
                for depth in range(1, len(ns) + 1):
                    for i, (n, v) in enumerate(self.cur(ns[:depth], kind)):
                        pos.setdefault(n, (depth, i))
                        val[n] = v
                d = [(n, val[n]) for n in sorted(pos, key=lambda n: pos[n])]
            return "eq", [[n, v] for n, v in d if none or v is not None]
        if tag == "lookup":
            _, ns, name, limit = it
            p = tuple(ns)
            while p and (limit is None or (limit and tuple(limit) == p[:len(limit)])):
                v = self.decl(p, name)
                if v is not None:          # a None declaration counts as absent
                    return "eq", [list(p), v]
                p = p[:-1]
            return "eq", None
        if tag == "get_decl":
            return "eq", self.decl(tuple(it[1]), it[2])
        if tag == "get_lambda":
            return "eq", dict(self.cur(it[1], "lambdas")).get(it[2])
        if tag == "get_decl_type":
            v = self.decl(tuple(it[1]), it[2])
            return "eq", ("NoneType" if v is None else "TypeParameter" if v[0] == "t"
                          else "ClassDeclaration" if v[2] else "Node")
        if tag == "find_namespaces":
            if not it[1]:
                return "eq", "AssertionError"
            return "eq", [list(n) for n in self.kids(tuple(it[1]), it[2])]
        if tag == "namespaces_decls":
            _, ns, name, kind, glob = it
            if not ns:
                return "eq", "IndexError" if glob else "AssertionError"
            root = ns[:1] if glob else ns
            r = []
            for x in self.reachable(root, False):
                for n, v in self.cur(x, kind):
                    if n == name and [list(x) + [name], v] not in r:
                        r.append([list(x) + [name], v])
            return "eq", sort_json(r)
        if tag == "declarations_in":
            ns = tuple(it[1])
            return "eq", [[list(x), [[n, v] for n, v in self.cur(x, "decls")]]
                          for x in self.registered() if ns and x[:len(ns)] == ns]
        if tag == "get_parent":
            return "eq", self.parent(tuple(it[1]))
        if tag == "get_parent_class":
            ns = tuple(it[1])
            while True:
                p = self.parent(ns)
                if p is None and not (len(ns) > 2 and "lambda_" in ns[-2]):
                    return "eq", None
                if p is not None and p[0] == "n" and p[2]:
                    return "eq", p
                ns = ns[:-1]
        if tag == "get_namespace":
            # the theorem's hypothesis: the value was only ever added at one (kind, ns, name),
            # and it is live there (in the kind's map and, for funcs/vars/classes, in decls)
            v = it[1]
            sites = self.sites.get(vkey(v), set())
            if len(sites) == 1:
                (k, ns, name), = sites
                live = dict(self.cur(ns, k)).get(name, Spec.DEL) == v and \
                    (k not in BINDS or dict(self.cur(ns, "decls")).get(name, Spec.DEL) == v)
                if live:
                    return "eq", list(ns)
            self.outside += 1
            return None
        return None

    def glob_ok(self, a, ns, kind, none):
        if not isinstance(a, list):
            return "not a dictionary: %r" % (a,)
        reach = self.reachable(ns[:1], True)
        pairs, names = [], {}
        for x in reach:
            for n, v in self.cur(x, kind):
                pairs.append([n, v])
                names.setdefault(n, []).append(v)
        keys = [n for n, _ in a]
        if len(set(keys)) != len(keys):
            return "duplicate keys"
        for n, v in a:
            if [n, v] not in pairs:
                return "entry %r of no reachable namespace" % ([n, v],)
            if not none and v is None:
                return "None value although none=False"
        for n, vs in names.items():
            if n not in keys and (none or all(v is not None for v in vs)):
                return "name %r of a reachable namespace missing" % n
        return None


def judge(items, answers):
    """the real code's answers against the specification; returns list of
    (query index, item, answer, expected) that differ, and the number of reverse lookups
    outside the hypothesis"""
    sp = Spec()
    bad = []
    qi = 0
    for it in items:
        if it[0] in MUTATORS:
            sp.apply(it)
            continue
        r = sp.answer(it)
        a = answers[qi]
        if r is not None and a != "masked":
            if r[0] == "eq":
                if a != r[1]:
                    bad.append((qi, it, a, r[1]))
            else:
                why = r[1](a)
                if why is not None:
                    bad.append((qi, it, a, "violates: " + why))
        qi += 1
    return bad, sp.outside


# ------------------------------------------------------------------ sequences
NAMES = ["a", "b", "c", "lambda_1", "f"]
TKEYS = ["T", "T", "U", "T+", "T<:"]


def rnd_ns(rng, names, allow_empty=True):
    r = rng.random()
    depth = 0 if (allow_empty and r < 0.02) else 1 if r < 0.25 else 2 if r < 0.57 else 3 if r < 0.85 else 4
    if depth == 0:
        return []
    return [("g" if rng.random() < 0.88 else "h")] + [rng.choice(names) for _ in range(depth - 1)]


def rnd_val(rng, kind, nnodes):
    r = rng.random()
    if kind == "types":
        if r < 0.8:
            return ["t", rng.choice(TKEYS)]
    elif r < 0.07:
        return ["t", rng.choice(TKEYS)]
    if r > 0.88:
        return None
    want_class = (kind == "classes") == (rng.random() < 0.85)
    i = rng.randrange(nnodes)
    i = i - (i % 2) + (0 if want_class else 1)       # even ids are ClassDeclarations
    return ["n", i, i % 2 == 0]


def rnd_query(rng, names, nnodes, known_ns):
    def ns():
        if known_ns and rng.random() < 0.5:
            base = list(rng.choice(known_ns))
            if rng.random() < 0.4 and len(base) < 5:
                base = base + [rng.choice(names)]
            return base
        return rnd_ns(rng, names)
    r = rng.random()
    if r < 0.34:
        mode = rng.choice([(False, False), (True, False), (False, True), (False, False)])
        return ["get", rng.choice(KINDS6), ns(), mode[0], mode[1], rng.random() < 0.5]
    if r < 0.50:
        n = ns()
        limit = None
        if rng.random() < 0.35:
            limit = n[:rng.randint(0, len(n))] if rng.random() < 0.8 else rnd_ns(rng, names)
        return ["lookup", n, rng.choice(names), limit]
    if r < 0.56:
        return ["find_namespaces", ns(), rng.random() < 0.5]
    if r < 0.64:
        return ["namespaces_decls", ns(), rng.choice(names), rng.choice(KINDS6), rng.random() < 0.6]
    if r < 0.70:
        return [rng.choice(["get_decl", "get_lambda", "get_decl_type"]), ns(), rng.choice(names)]
    if r < 0.75:
        return ["declarations_in", ns()]
    if r < 0.85:
        return ["get_namespace", rnd_val(rng, rng.choice(KINDS5), nnodes)]
    if r < 0.90:
        return ["get_parent", ns()]
    if r < 0.96:
        return ["get_parent_class", ns()]
    return ["dump"]


def rnd_sequence(rng, maxlen):
    n = rng.randint(1, maxlen)
    names = NAMES[:rng.choice([2, 3, 3, 5])]
    nnodes = rng.choice([2, 4, 8, 16])
    pmut = rng.choice([0.45, 0.6, 0.75])
    items, known = [], []
    for _ in range(n):
        r = rng.random()
        if r < pmut * 0.70:
            k = rng.choice(KINDS5)
            ns = rnd_ns(rng, names, allow_empty=rng.random() < 0.3)
            if known and rng.random() < 0.35:
                # declare inside a namespace that a function/class name already opened
                ns = list(rng.choice(known))
            name = rng.choice(names)
            items.append(["add", k, ns, name, rnd_val(rng, k, nnodes)])
            if ns not in known:
                known.append(ns)
            if k in ("funcs", "classes") and len(ns) < 4 and ns + [name] not in known:
                known.append(ns + [name])
        elif r < pmut * 0.97:
            ns = list(rng.choice(known)) if known and rng.random() < 0.8 else rnd_ns(rng, names)
            items.append(["remove", rng.choice(KINDS5), ns, rng.choice(names)])
        elif r < pmut:
            ns = list(rng.choice(known)) if known and rng.random() < 0.8 else rnd_ns(rng, names)
            items.append(["remove_namespace", ns])
        else:
            items.append(rnd_query(rng, names, nnodes, known))
    items.append(["dump"])
    return items


N1, NT, NC = ["n", 1, False], ["t", "T"], ["n", 2, True]
G, GA, GAB = ["g"], ["g", "a"], ["g", "a", "b"]
# witnesses of the Lean counterexample theorems (Props/C16.lean), replayed on the real code
WITNESS_REVERSE = [["add", "types", ["g", "A"], "T", NT], ["add", "types", ["g", "B"], "T", NT],
                   ["remove", "types", ["g", "B"], "T"],
                   ["get", "types", ["g", "A"], True, False, True], ["get", "types", ["g", "B"], True, False, True],
                   ["get_namespace", NT]]
WITNESS_REVERSE_EXPECT = [[["T", NT]], [], None]


def battery(nss, names, vals):
    q = [["dump"]]
    for ns in nss:
        for k in KINDS6:
            q.append(["get", k, ns, False, False, True])
            q.append(["get", k, ns, False, False, False])
            q.append(["get", k, ns, True, False, True])
        q.append(["find_namespaces", ns, True])
        q.append(["find_namespaces", ns, False])
        q.append(["declarations_in", ns])
        q.append(["get_parent", ns])
        q.append(["get_parent_class", ns])
        for n in names:
            q.append(["lookup", ns, n, None])
            q.append(["lookup", ns, n, ns[:1]])
            q.append(["lookup", ns, n, ns[:2]])
            q.append(["get_decl", ns, n])
            q.append(["get_lambda", ns, n])
            q.append(["get_decl_type", ns, n])
            for k in ("funcs", "decls", "types"):
                q.append(["namespaces_decls", ns, n, k, True])
                q.append(["namespaces_decls", ns, n, k, False])
    for k in KINDS6:
        q.append(["get", k, G, False, True, True])
        q.append(["get", k, G, False, True, False])
    for v in vals:
        q.append(["get_namespace", v])
    return q


def corpus():
    B = battery([G, GA, GAB, ["g", "a", "b", "c"], []], ["a", "b", "x"], [N1, NT, NC, None, ["n", 3, False]])
    seqs = []
    seqs.append(WITNESS_REVERSE + B)
    # three-level tree with shadowing (the non-vacuity example of Props/C16.lean)
    tree = [["add", "classes", G, "a", NC], ["add", "vars", G, "x", ["n", 10, False]],
            ["add", "funcs", GA, "b", N1], ["add", "vars", GA, "x", ["n", 11, False]],
            ["add", "vars", GAB, "x", ["n", 12, False]], ["add", "vars", GAB, "y", ["n", 13, False]]]
    seqs.append(tree + B)
    seqs.append(tree + [["remove", "vars", GAB, "x"]] + B)
    seqs.append(tree + [["remove", "vars", GAB, "x"], ["remove", "vars", GA, "x"]] + B)
    # one shared name space: a function overwrites the decls entry of a variable, keeps its place
    seqs.append([["add", "vars", G, "a", ["n", 3, False]], ["add", "vars", G, "b", ["n", 5, False]],
                 ["add", "funcs", G, "a", N1]] + B)
    # removing by the wrong kind unbinds the name, the variable map keeps it
    seqs.append([["add", "vars", G, "a", ["n", 3, False]], ["remove", "funcs", G, "a"]] + B)
    seqs.append([["add", "vars", G, "a", ["n", 3, False]], ["add", "funcs", G, "a", ["n", 3, False]],
                 ["remove", "funcs", G, "a"]] + B)
    # delete + re-add moves to the end
    seqs.append([["add", "vars", G, "a", N1], ["add", "vars", G, "b", ["n", 3, False]],
                 ["remove", "vars", G, "a"], ["add", "vars", G, "a", N1]] + B)
    # None declarations: skipped by lookup and by none=False, present with none=True; artificial
    # function None opens a namespace only for none=True
    seqs.append([["add", "vars", GA, "x", None], ["add", "vars", G, "x", N1], ["add", "funcs", G, "a", None],
                 ["add", "vars", GA, "b", ["n", 3, False]]] + B)
    # a name that is both a function and a class: its namespace is walked twice
    seqs.append([["add", "funcs", G, "a", N1], ["add", "classes", G, "a", NC], ["add", "funcs", GA, "b", ["n", 3, False]],
                 ["add", "classes", GA, "b", ["n", 4, True]], ["add", "vars", GAB, "x", ["n", 5, False]]] + B)
    # glob: later visited namespaces win, order of first insertion
    seqs.append([["add", "funcs", G, "a", N1], ["add", "funcs", G, "b", ["n", 3, False]],
                 ["add", "vars", GA, "x", ["n", 5, False]], ["add", "vars", ["g", "b"], "x", ["n", 7, False]],
                 ["add", "vars", G, "x", ["n", 9, False]]] + B)
    # remove_namespace: entries gone, reverse index stale, re-registration goes to the end
    seqs.append([["add", "vars", G, "x", N1], ["add", "vars", GA, "y", ["n", 3, False]], ["remove_namespace", G],
                 ["add", "vars", G, "z", ["n", 5, False]]] + B)
    # lambda_ namespaces in get_parent_class
    seqs.append([["add", "classes", G, "K", NC], ["add", "funcs", ["g", "K"], "m", N1],
                 ["get_parent_class", ["g", "K", "m", "lambda_7", "x"]],
                 ["get_parent_class", ["g", "K", "m", "xlambda_7", "x", "y"]],
                 ["get_parent_class", ["g", "K", "m", "other", "x"]],
                 ["get_parent_class", ["g", "K", "m"]], ["get_parent_class", ["g", "K"]],
                 ["get_parent_class", ["lambda_1", "q", "r"]], ["get_parent_class", ["lambda_1", "lambda_2", "lambda_3"]]] + B)
    # same node registered in two namespaces; same namespace two names
    seqs.append([["add", "vars", G, "x", N1], ["add", "vars", GA, "y", N1], ["remove", "vars", GA, "y"]] + B)
    seqs.append([["add", "vars", G, "x", N1], ["add", "vars", G, "y", N1], ["remove", "vars", G, "y"]] + B)
    # equal type parameters with equal hash but different bound
    seqs.append([["add", "types", G, "T", ["t", "T"]], ["add", "types", GA, "T", ["t", "T<:"]],
                 ["get_namespace", ["t", "T"]], ["get_namespace", ["t", "T<:"]], ["get_namespace", ["t", "T+"]]] + B)
    # empty namespaces everywhere
    seqs.append([["add", "vars", [], "x", N1], ["add", "funcs", [], "g", NC], ["add", "vars", G, "y", ["n", 3, False]],
                 ["lookup", [], "x", None], ["lookup", G, "x", None], ["lookup", G, "x", []],
                 ["remove", "vars", [], "x"], ["remove_namespace", []]] + B)
    return seqs


# exhaustive alphabet (thorough): 21 letters
def exhaustive_alphabet():
    al = []
    for ns in (G, GA):
        for name in ("a", "b"):
            al.append(["add", "funcs", ns, name, N1])
            al.append(["add", "vars", ns, name, None])
            al.append(["remove", "funcs", ns, name])
            al.append(["remove", "vars", ns, name])
        al.append(["add", "types", ns, "a", NT])
        al.append(["remove", "types", ns, "a"])
    al.append(["remove_namespace", GA])
    return al


EXH_BATTERY = [["dump"],
               ["lookup", GAB, "a", None], ["lookup", GAB, "b", None], ["lookup", GA, "a", GA],
               ["get", "decls", GA, False, False, True], ["get", "decls", GA, False, False, False],
               ["get", "funcs", GA, False, False, True], ["get", "vars", GAB, False, False, True],
               ["get", "funcs", G, False, True, True], ["get", "decls", G, False, True, True],
               ["get", "decls", G, False, True, False], ["get", "types", G, False, True, True],
               ["namespaces_decls", G, "a", "funcs", True], ["namespaces_decls", GA, "b", "decls", False],
               ["find_namespaces", G, False], ["declarations_in", G],
               ["get_namespace", N1], ["get_namespace", NT], ["get_namespace", None],
               ["get_parent", GAB], ["get_parent_class", GAB]]


# ------------------------------------------------------------------ generator traces
def record_generator_traces(nprog, seed0, langs):
    """run the real generator with the Context methods wrapped; returns one item list per
    generated program (mutators and queries in call order, queries with their answers)"""
    import itertools as _it
    s = load_src()
    ast, tp, cm = s["ast"], s["tp"], s["cm"]
    argv = sys.argv
    sys.argv = ["x"]
    try:
        from src.ir import node as _n
        from src import utils
        from src.generators.generator import Generator
    finally:
        sys.argv = argv
    cnt = _it.count(1)

    def _h(self):
        v = self.__dict__.get("_vid")
        if v is None:
            v = next(cnt)
            self.__dict__["_vid"] = v
        return v
    old_hash = _n.Node.__hash__
    _n.Node.__hash__ = _h

    rec = {"items": None, "answers": None, "ctx": None}
    reps, ids, keep, nrep = {}, {}, [], [0]
    tkeys, frozen = {}, {}      # id(type object) -> key / frozen copy at first sight

    def canon(o):
        """None -> null; types -> the ==-class they belonged to when first seen (the generator
        mutates bounds/variances of registered TypeParameters: the key of an *object* is kept
        stable, frozen copies serve as class representatives); anything else by identity"""
        if o is None:
            return None
        k = id(o)
        if isinstance(o, tp.Type):
            if k not in tkeys:
                keep.append(o)
                fz = copy.deepcopy(o)
                frozen[k] = (o, fz)
                # == of types compares class and name first: bucket the representatives
                bucket = reps.setdefault((type(o).__name__, getattr(o, "name", None)), [])
                for i, r in bucket:
                    if r == o:
                        tkeys[k] = "tp%d" % i
                        break
                else:
                    nrep[0] += 1
                    bucket.append((nrep[0], fz))
                    tkeys[k] = "tp%d" % nrep[0]
            return ["t", tkeys[k]]
        if k not in ids:
            ids[k] = len(ids)
            keep.append(o)
        return ["n", ids[k], isinstance(o, ast.ClassDeclaration)]

    kinds = {"type": "types", "func": "funcs", "lambda": "lambdas", "var": "vars", "class": "classes"}
    getters = {"get_types": "types", "get_funcs": "funcs", "get_lambdas": "lambdas", "get_vars": "vars",
               "get_classes": "classes", "get_declarations": "decls"}
    originals = {}

    def wrap(name, mk_item, mk_answer):
        orig = getattr(cm.Context, name)
        originals[name] = orig

        def w(self, *a, **k):
            if rec["items"] is None or (rec["ctx"] is not None and rec["ctx"] is not self):
                return orig(self, *a, **k)
            rec["ctx"] = self
            try:
                item = mk_item(*a, **k)
            except Exception as e:      # unexpected call shape: machinery problem
                raise common.HarnessError("trace wrapper %s%r: %s" % (name, a, e))
            if mk_answer is None:
                rec["items"].append(item)
                return orig(self, *a, **k)
            try:
                r = orig(self, *a, **k)
            except AssertionError:
                rec["items"].append(item)
                rec["answers"].append("AssertionError")
                raise
            except IndexError:
                rec["items"].append(item)
                rec["answers"].append("IndexError")
                raise
            rec["items"].append(item)
            rec["answers"].append(mk_answer(r))
            return r
        setattr(cm.Context, name, w)

    for short, kind in kinds.items():
        wrap("add_" + short, (lambda kind: lambda ns, name, v: ["add", kind, list(ns), name, canon(v)])(kind), None)
        wrap("remove_" + short, (lambda kind: lambda ns, name: ["remove", kind, list(ns), name])(kind), None)
    wrap("remove_namespace", lambda ns: ["remove_namespace", list(ns)], None)
    for g, kind in getters.items():
        wrap(g, (lambda kind: lambda ns, only_current=False, glob=False, none=False:
                 ["get", kind, list(ns), bool(only_current), bool(glob), bool(none)])(kind),
             lambda d: canon_dict(d, canon))
    wrap("find_namespaces", lambda ns, none: ["find_namespaces", list(ns), bool(none)],
         lambda r: [list(n) for n in r])
    wrap("get_namespaces_decls", lambda ns, name, decl_type, glob=True:
         ["namespaces_decls", list(ns), name, decl_type, bool(glob)],
         lambda r: sort_json([[list(n), canon(d)] for n, d in r]))
    wrap("get_decl", lambda ns, name: ["get_decl", list(ns), name], canon)
    wrap("get_lambda", lambda ns, name: ["get_lambda", list(ns), name], canon)
    wrap("get_decl_type", lambda ns, name: ["get_decl_type", list(ns), name], lambda t: type_tag(t, s))
    wrap("get_declarations_in", lambda ns: ["declarations_in", list(ns)],
         lambda r: [[list(n), canon_dict(d, canon)] for n, d in r.items()])
    wrap("get_namespace", lambda d: ["get_namespace", canon(d)], lambda r: None if r is None else list(r))
    wrap("get_parent", lambda ns: ["get_parent", list(ns)], canon)
    wrap("get_parent_class", lambda ns: ["get_parent_class", list(ns)], canon)
    orig_module_get_decl = cm.get_decl

    def module_get_decl(context, namespace, decl_name, limit=None):
        r = orig_module_get_decl(context, namespace, decl_name, limit)
        if rec["items"] is not None and rec["ctx"] is context:
            rec["items"].append(["lookup", list(namespace), decl_name, None if limit is None else list(limit)])
            rec["answers"].append(None if r is None else [list(r[0]), canon(r[1])])
        return r
    cm.get_decl = module_get_decl

    traces = []
    try:
        for lang in langs:
            utils.random.remove_reserved_words(lang)
        for i in range(nprog):
            lang = langs[i % len(langs)]
            utils.random.r.seed(seed0 + i)
            utils.random.reset_word_pool()
            rec["items"], rec["answers"], rec["ctx"] = [], [], None
            gen = Generator(language=lang)
            gen.generate()
            ctx = rec["ctx"]
            items, answers = rec["items"], rec["answers"]
            rec["items"] = None
            if ctx is None:
                continue
            # probe the final real state: the whole state, lookups of every declared name from
            # below its namespace, global queries, reverse lookups of every registered value
            extra = [["dump"]]
            nss = [list(ns) for ns in ctx._context]
            for ns in nss[:40]:
                names = list(ctx._context[tuple(ns)]["decls"])[:6]
                for nm in names:
                    extra.append(["lookup", ns + ["zz"], nm, None])
                    extra.append(["lookup", ns + ["zz"], nm, ns[:2]])
                extra.append(["get", "decls", ns, False, False, False])
                extra.append(["get_parent_class", ns + ["zz"]])
            for k in KINDS6:
                extra.append(["get", k, nss[0] if nss else ["global"], False, True, True])
            vals = []
            for e in ctx._context.values():
                for k in KINDS5:
                    for v in e[k].values():
                        cv = canon(v)
                        if cv not in vals:
                            vals.append(cv)
            objs = {}
            for e in ctx._context.values():
                for k in KINDS5:
                    for v in e[k].values():
                        objs.setdefault(vkey(canon(v)), v)
            for cv in vals[:80]:
                extra.append(["get_namespace", cv])
            for it in extra:
                _, a = real_step(ctx, it, lambda j: objs.get(vkey(j)), canon)
                items.append(it)
                answers.append(a)
            # registered type objects whose ==-class changed since they were first seen
            mutated = 0
            for e in ctx._context.values():
                for v in e["types"].values():
                    if isinstance(v, tp.Type) and id(v) in frozen and not (frozen[id(v)][1] == v):
                        mutated += 1
            traces.append({"lang": lang, "seed": seed0 + i, "items": items, "answers": answers,
                           "mutated": mutated})
    finally:
        for name, orig in originals.items():
            setattr(cm.Context, name, orig)
        cm.get_decl = orig_module_get_decl
        _n.Node.__hash__ = old_hash
    return traces


# ------------------------------------------------------------------ comparison and shrinking
def first_diff(a, b):
    for i, (x, y) in enumerate(zip(a, b)):
        if x != y:
            return i
    return None if len(a) == len(b) else min(len(a), len(b))


def cut_at_query(items, qi):
    """prefix of `items` that ends with query number `qi`, all other queries dropped"""
    out, n = [], 0
    for it in items:
        if it[0] in MUTATORS:
            out.append(it)
        else:
            if n == qi:
                out.append(it)
                return out
            n += 1
    return out


def shrink(items, still_fails):
    """greedy removal of mutators in front of the final query while it still fails"""
    cur = list(items)
    changed = True
    while changed and len(cur) > 1:
        changed = False
        i = 0
        while i < len(cur) - 1:
            cand = cur[:i] + cur[i + 1:]
            if still_fails(cand):
                cur = cand
                changed = True
            else:
                i += 1
    return cur


def fails_vs_model(items):
    return run_real(items) != run_model([items])[0]


def fails_vs_spec(items):
    bad, _ = judge(items, run_real(items))
    return bool(bad)


def signature_of(item):
    return item[0] + (":" + item[1] if item[0] == "get" else "")


def report_correspondence_break(run, label, items, qi):
    """model and real code differ at query `qi` of `items`: minimise, then let the
    specification decide whether the real code is at fault"""
    seq = shrink(cut_at_query(items, qi), fails_vs_model)
    impl = run_real(seq)
    model = run_model([seq])[0]
    bad, _ = judge(seq, impl)
    q = seq[-1]
    if not bad:
        # the specification makes no claim about this query (whole-state dump, reverse lookup
        # outside the hypothesis): probe the state behind the minimised mutators with the
        # queries it does judge
        muts = [it for it in seq if it[0] in MUTATORS]
        nss, names, vals = [], [], []
        for it in muts:
            ns = it[2] if it[0] != "remove_namespace" else it[1]
            for cand in (ns, ns + ["zz"]):
                if cand not in nss:
                    nss.append(cand)
            if it[0] != "remove_namespace" and it[3] not in names:
                names.append(it[3])
            if it[0] == "add" and it[4] not in vals:
                vals.append(it[4])
        probe = muts + battery(nss[:6], names[:4], vals[:4])
        pbad, _ = judge(probe, run_real(probe))
        if pbad:
            seq2 = shrink(cut_at_query(probe, pbad[0][0]), fails_vs_spec)
            impl2 = run_real(seq2)
            bad2, _ = judge(seq2, impl2)
            if bad2:
                run.violation({"kind": "failing-input", "correspondence": label, "items": seq2,
                               "implementation": impl2[-1], "model": run_model([seq2])[0][-1],
                               "specification": bad2[-1][3], "first-difference": seq},
                              signature="%s:impl-differs-from-specification" % signature_of(seq2[-1]))
                return
    if bad:
        run.violation({"kind": "failing-input", "correspondence": label, "items": seq,
                       "implementation": impl[-1], "model": model[-1], "specification": bad[-1][3]},
                      signature="%s:impl-differs-from-specification" % signature_of(q))
    else:
        run.violation({"kind": "broken-correspondence", "correspondence": label, "items": seq,
                       "implementation": impl[-1], "model": model[-1],
                       "note": "model and implementation differ; the implementation agrees with the "
                               "specification-side reference on the minimised sequence"},
                      signature="%s:model-differs" % signature_of(q), no_input=True)


def report_spec_break(run, label, items, qi):
    seq = shrink(cut_at_query(items, qi), fails_vs_spec)
    impl = run_real(seq)
    bad, _ = judge(seq, impl)
    q = seq[-1]
    run.violation({"kind": "failing-input", "correspondence": label, "items": seq,
                   "implementation": impl[-1], "specification": bad[-1][3] if bad else None,
                   "note": "the implementation differs from the specification-side reference"},
                  signature="%s:impl-differs-from-specification" % signature_of(q))


def mask_reverse(items, answers):
    """drop what depends on the reverse index `_namespaces` (used for generator traces in which
    registered TypeParameters were mutated: their hash/== changed under the dictionary)"""
    out = []
    qs = [it for it in items if it[0] not in MUTATORS]
    for it, a in zip(qs, answers):
        if it[0] == "dump":
            out.append([a[0], "masked"])
        elif it[0] == "get_namespace":
            out.append("masked")
        else:
            out.append(a)
    return out


def process_batch(seqs, impl_answers=None, masks=None):
    """returns per sequence (first query index where model differs | None,
    first query index where the specification is violated | None, #queries, #outside)"""
    if impl_answers is None:
        impl_answers = [run_real(s) for s in seqs]
    model = run_model(seqs)
    if masks is not None:
        impl_answers = [mask_reverse(s, a) if m else a for s, a, m in zip(seqs, impl_answers, masks)]
        model = [mask_reverse(s, a) if m else a for s, a, m in zip(seqs, model, masks)]
    out = []
    for s, ia, ma in zip(seqs, impl_answers, model):
        d = first_diff(ia, ma)
        bad, outside = judge(s, ia)
        out.append((d, bad[0][0] if bad else None, len(ia), outside))
    return out


def _exh_worker(args):
    """one shard of the exhaustive enumeration: all sequences that start with the letters
    `prefix` and continue with 0..`more` further letters"""
    prefix, more = args
    load_src()
    al = exhaustive_alphabet()
    stats = {"sequences": 0, "queries": 0, "outside": 0, "model_diffs": [], "spec_diffs": []}
    batch = []

    def flush():
        if not batch:
            return
        res = process_batch(batch)
        for s, (d, b, nq, outside) in zip(batch, res):
            stats["sequences"] += 1
            stats["queries"] += nq
            stats["outside"] += outside
            if d is not None and len(stats["model_diffs"]) < 5:
                stats["model_diffs"].append((s, d))
            if b is not None and len(stats["spec_diffs"]) < 5:
                stats["spec_diffs"].append((s, b))
        del batch[:]
    head = [al[i] for i in prefix]
    for n in range(0, more + 1):
        for rest in itertools.product(al, repeat=n):
            batch.append(head + list(rest) + EXH_BATTERY)
            if len(batch) >= 20000:
                flush()
    flush()
    return stats


def _rnd_worker(args):
    seed, nseq, maxlen = args
    load_src()
    rng = _pyrandom.Random(seed)
    stats = {"sequences": 0, "queries": 0, "outside": 0, "model_diffs": [], "spec_diffs": [],
             "tally": {}, "digests": [], "samples": [], "maxlen": 0}
    for start in range(0, nseq, 200):
        seqs = [rnd_sequence(rng, maxlen) for _ in range(min(200, nseq - start))]
        res = process_batch(seqs)
        for s, (d, b, nq, outside) in zip(seqs, res):
            stats["sequences"] += 1
            stats["queries"] += nq
            stats["outside"] += outside
            stats["maxlen"] = max(stats["maxlen"], len(s))
            for it in s:
                key = it[0] + (":" + it[1] if it[0] in ("add", "remove", "get") else "")
                stats["tally"][key] = stats["tally"].get(key, 0) + 1
            stats["digests"].append(hash(common.canon(s)))
            if len(stats["samples"]) < 2 and len(s) <= 12:
                stats["samples"].append(s)
            if d is not None and len(stats["model_diffs"]) < 5:
                stats["model_diffs"].append((s, d))
            if b is not None and len(stats["spec_diffs"]) < 5:
                stats["spec_diffs"].append((s, b))
    return stats


# ------------------------------------------------------------------ the check
def check(run):
    load_src()
    proofs_ok = run.build_and_audit()
    quick = run.tier == "quick"
    rng = run.rng
    model_diffs, spec_diffs = [], []
    outside = 0
    nq_total = 0

    def account(label, seqs, res):
        nonlocal outside, nq_total
        for s, (d, b, nq, o) in zip(seqs, res):
            run.count({"stream": label, "items": s if len(s) <= 14 else common.canon(s)[:80] + "…%d" % hash(common.canon(s))},
                      nontrivial=sum(1 for it in s if it[0] in MUTATORS) >= 2)
            run.cov["traces_validated_against_impl"] += 1
            nq_total += nq
            outside += o
            for it in s:
                run.tally("ops", it[0] + (":" + it[1] if it[0] in ("add", "remove", "get") else ""))
            if d is not None:
                model_diffs.append((label, s, d))
            if b is not None:
                spec_diffs.append((label, s, b))

    # (a) corpus
    cs = corpus()
    res = process_batch(cs)
    account("corpus", cs, res)
    # the witness of `reverse_lookup_counterexample` must behave on the real code as the
    # theorem says (value registered in exactly one namespace, reverse lookup answers None)
    w = run_real(WITNESS_REVERSE)
    run.cov["reverse_lookup_witness_on_real_code"] = (w == WITNESS_REVERSE_EXPECT)
    if w != WITNESS_REVERSE_EXPECT:
        run.violation({"kind": "broken-correspondence", "items": WITNESS_REVERSE, "implementation": w,
                       "model": WITNESS_REVERSE_EXPECT,
                       "note": "the witness of reverse_lookup_counterexample behaves differently on the real code"},
                      signature="witness:reverse_lookup", no_input=True)
    run.log("corpus: %d sequences" % len(cs))

    # (c) exhaustive small (thorough: length <= 5 over 21 letters; quick: length <= 3)
    al = exhaustive_alphabet()
    maxlen = 3 if quick else 5
    # length 1: one shard per letter; length >= 2: one shard per pair of first letters
    if quick:
        shards = [([i], maxlen - 1) for i in range(len(al))]
    else:
        shards = [([i], 0) for i in range(len(al))] + \
                 [([i, j], maxlen - 2) for i in range(len(al)) for j in range(len(al))]
    with multiprocessing.Pool(min(16, os.cpu_count() or 1)) as pool:
        exh = pool.map(_exh_worker, shards, chunksize=1 if quick else 4)
        exh_empty = process_batch([list(EXH_BATTERY)])
        account("exhaustive", [list(EXH_BATTERY)], exh_empty)
        n_exh = 0
        for st in exh:
            n_exh += st["sequences"]
            nq_total += st["queries"]
            outside += st["outside"]
            model_diffs += [("exhaustive",) + d for d in st["model_diffs"]]
            spec_diffs += [("exhaustive",) + d for d in st["spec_diffs"]]
        run.cov["evaluations"] += n_exh
        run.cov["traces_validated_against_impl"] += n_exh
        run.cov["exhaustive_sequences"] = n_exh
        run.log("exhaustive: all %d sequences of length <= %d over %d letters" % (n_exh, maxlen, len(al)))

        # (b) random
        nseq = 300 if quick else 10000
        rmax = 60 if quick else 400
        nshard = 4 if quick else 16
        jobs = [(rng.randrange(1 << 30), nseq // nshard + (1 if i < nseq % nshard else 0), rmax)
                for i in range(nshard)]
        rnd = pool.map(_rnd_worker, jobs, chunksize=1)
    n_rnd = 0
    digests = set()
    longest = 0
    for st in rnd:
        n_rnd += st["sequences"]
        nq_total += st["queries"]
        outside += st["outside"]
        longest = max(longest, st["maxlen"])
        digests.update(st["digests"])
        for k, v in st["tally"].items():
            d = run.cov.setdefault("ops", {})
            d[k] = d.get(k, 0) + v
        for s in st["samples"]:
            run.count({"stream": "random", "items": s})
            run.cov["evaluations"] -= 1
        model_diffs += [("random",) + d for d in st["model_diffs"]]
        spec_diffs += [("random",) + d for d in st["spec_diffs"]]
    run.cov["evaluations"] += n_rnd
    run.cov["traces_validated_against_impl"] += n_rnd
    run.cov["random_sequences"] = n_rnd
    run.cov["random_longest"] = longest
    run.log("random: %d sequences (longest %d items)" % (n_rnd, longest))

    # (d) traces of real generator runs
    nprog = 10 if quick else 60
    traces = record_generator_traces(nprog, run.seed * 1000, ["java", "kotlin", "groovy"])
    tseqs = [t["items"] for t in traces]
    tres = process_batch(tseqs, [t["answers"] for t in traces], [t["mutated"] > 0 for t in traces])
    run.cov["generator_programs_with_mutated_registered_type_parameters"] = sum(1 for t in traces if t["mutated"])
    run.cov["generator_mutated_registered_type_parameters"] = sum(t["mutated"] for t in traces)
    for t, (d, b, nq, o) in zip(traces, tres):
        run.cov["evaluations"] += 1
        run.cov["traces_validated_against_impl"] += 1
        nq_total += nq
        outside += o
        run.tally("generator_trace_lang", t["lang"])
        for it in t["items"]:
            run.tally("generator_ops", it[0] + (":" + it[1] if it[0] in ("add", "remove", "get") else ""))
        if d is not None:
            model_diffs.append(("generator-trace", t["items"], d))
        if b is not None:
            spec_diffs.append(("generator-trace", t["items"], b))
    # how often generated programs fall outside the hypothesis of reverse_lookup: values added
    # at more than one (kind, namespace, name)
    multi = 0
    total_vals = 0
    for t in traces:
        sites = {}
        for it in t["items"]:
            if it[0] == "add":
                sites.setdefault(vkey(it[4]), set()).add((it[1], tuple(it[2]), it[3]))
        total_vals += len(sites)
        multi += sum(1 for v in sites.values() if len(v) > 1)
    run.cov["generator_programs"] = len(traces)
    run.cov["generator_trace_items"] = sum(len(t["items"]) for t in traces)
    run.cov["generator_values_registered"] = total_vals
    run.cov["generator_values_registered_at_several_sites"] = multi
    run.log("generator traces: %d programs, %d items, %d of %d values registered at several sites"
            % (len(traces), run.cov["generator_trace_items"], multi, total_vals))

    run.cov["queries_compared"] = nq_total
    run.cov["reverse_lookups_outside_hypothesis"] = outside
    run.cov["distinct_nontrivial"] += n_exh + len(digests)
    run.cov["exhaustive"] = False
    run.cov["rule"] = (
        "case = one operation sequence on a fresh Context (mutators and queries interleaved; every query "
        "answer of the real code compared with the model and judged by the history-based reference); "
        "corpus; all sequences of length <= %d over a 21-letter alphabet (2 namespaces, 2 names, funcs/vars/"
        "types, remove_namespace) each followed by a 21-query battery incl. the whole state; random "
        "sequences up to %d items over 5 entity kinds, namespaces of depth 0..4 over <= 5 names, node/None/"
        "TypeParameter values; traces of %d real generator runs; non-trivial = at least 2 mutators; "
        "distinct by canonical JSON" % (maxlen, rmax, len(traces)))

    # ---- verdicts
    seen_sig = set()
    for label, s, d in model_diffs:
        q = cut_at_query(s, d)[-1]
        sig = signature_of(q)
        if sig in seen_sig:
            continue
        seen_sig.add(sig)
        run.log("correspondence %s breaks at %s" % (label, common.canon(q)[:200]))
        report_correspondence_break(run, label, s, d)
    if not model_diffs:
        for label, s, b in spec_diffs:
            q = cut_at_query(s, b)[-1]
            sig = signature_of(q)
            if sig in seen_sig:
                continue
            seen_sig.add(sig)
            run.log("specification violated (%s) at %s" % (label, common.canon(q)[:200]))
            report_spec_break(run, label, s, b)
    if not proofs_ok and not run.violations:
        run.violation({"kind": "broken-proof", "obligations": run.broken}, signature="proof", no_input=True)


def replay(run, rp):
    load_src()
    items = rp["items"]
    impl = run_real(items)
    model = run_model([items])[0]
    bad, outside = judge(items, impl)
    run.count({"items": items, "answers": impl})
    run.cov["rule"] = "replay of one operation sequence"
    run.log("implementation:", common.canon(impl)[:600])
    run.log("model         :", common.canon(model)[:600])
    if bad:
        run.log("specification :", bad[0][3], "at", bad[0][1])
        run.violation({"kind": "failing-input", "items": items, "implementation": bad[0][2],
                       "specification": bad[0][3]},
                      signature="%s:impl-differs-from-specification" % signature_of(bad[0][1]))
    elif impl != model:
        d = first_diff(impl, model)
        run.violation({"kind": "broken-correspondence", "items": items, "implementation": impl[d],
                       "model": model[d]},
                      signature="%s:model-differs" % signature_of(cut_at_query(items, d)[-1]), no_input=True)
