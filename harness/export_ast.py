"""By-value export of an ast.Program (trusted translator, DESIGN appendix A).

`export_program(p)` returns {"lang", "tt" (hash-consed type table), "decls" (top-level
declarations in context order, nodes as nested dicts, types as indices into tt), "context"
(every entry of the Context as [namespace, kind, name], insertion order), "ctxinfo" (parallel to
"context": what the translators read of the *value* stored under the entry — None for `None`, the
`class_type` of a class declaration, -1 for anything else)}.  The Lean reader is
lean/Driver/ProgJson.lean; both sides list one field per attribute the AST class defines."""
import src.ir.ast as ast
import src.ir.types as tp
from export import TypeTable

KINDS = {ast.LogicalExpr: "logical", ast.EqualityExpr: "equality", ast.ComparisonExpr: "comparison",
         ast.ArithExpr: "arith"}


class Exporter:
    def __init__(self):
        self.tt = TypeTable()

    def ty(self, t):
        return self.tt.add(t)

    def tys(self, ts):
        return [self.tt.add(t) for t in ts]

    def L(self, xs):
        return [self.node(x) for x in xs]

    def node(self, n):
        if n is None:
            return None
        T, L = self.ty, self.L
        if isinstance(n, ast.Block):
            return {"n": "block", "body": L(n.body), "isFunc": bool(n.is_func_block)}
        if isinstance(n, ast.SuperClassInstantiation):
            return {"n": "super", "t": T(n.class_type), "args": None if n.args is None else L(n.args)}
        if isinstance(n, ast.ClassDeclaration):
            return {"n": "class", "name": n.name, "ctype": n.class_type, "isFinal": bool(n.is_final),
                    "fields": L(n.fields), "supers": L(n.superclasses), "funcs": L(n.functions),
                    "tparams": self.tys(n.type_parameters)}
        if isinstance(n, ast.VariableDeclaration):
            return {"n": "var", "name": n.name, "expr": self.node(n.expr), "isFinal": bool(n.is_final),
                    "varType": T(n.var_type), "inferred": T(n.inferred_type)}
        if isinstance(n, ast.CallArgument):
            return {"n": "arg", "expr": self.node(n.expr), "name": n.name}
        if isinstance(n, ast.FieldDeclaration):
            return {"n": "field", "name": n.name, "t": T(n.field_type), "isFinal": bool(n.is_final),
                    "canOverride": bool(n.can_override), "override": bool(n.override)}
        if isinstance(n, ast.ParameterDeclaration):
            return {"n": "param", "name": n.name, "t": T(n.param_type), "vararg": bool(n.vararg),
                    "default": self.node(n.default)}
        if isinstance(n, ast.FunctionDeclaration):
            return {"n": "func", "name": n.name, "params": L(n.params), "retType": T(n.ret_type),
                    "inferred": T(n.inferred_type), "body": self.node(n.body), "isFinal": bool(n.is_final),
                    "override": bool(n.override), "tparams": self.tys(n.type_parameters), "ftype": n.func_type}
        if isinstance(n, ast.Lambda):
            return {"n": "lambda", "name": n.name, "params": L(n.params), "retType": T(n.ret_type),
                    "body": self.node(n.body), "signature": T(n.signature)}
        if isinstance(n, ast.FunctionReference):
            return {"n": "funcref", "func": n.func, "receiver": self.node(n.receiver), "signature": T(n.signature)}
        if isinstance(n, ast.BottomConstant):
            return {"n": "bottom", "t": T(n.t)}
        if isinstance(n, ast.IntegerConstant):
            return {"n": "int", "lit": str(n.literal), "t": T(n.integer_type)}
        if isinstance(n, ast.RealConstant):
            return {"n": "real", "lit": str(n.literal), "t": T(n.real_type)}
        if isinstance(n, ast.BooleanConstant):
            return {"n": "bool", "lit": str(n.literal)}
        if isinstance(n, ast.CharConstant):
            return {"n": "char", "lit": str(n.literal)}
        if isinstance(n, ast.StringConstant):
            return {"n": "string", "lit": str(n.literal)}
        if isinstance(n, ast.ArrayExpr):
            return {"n": "array", "t": T(n.array_type), "len": n.length, "exprs": L(n.exprs)}
        if isinstance(n, ast.Variable):
            return {"n": "variable", "name": n.name}
        if isinstance(n, ast.Is):
            return {"n": "is", "e": self.node(n.lexpr), "t": T(n.rexpr), "isNot": bool(n.operator.is_not)}
        if isinstance(n, ast.BinaryOp):
            return {"n": "binop", "kind": KINDS[type(n)], "l": self.node(n.lexpr), "r": self.node(n.rexpr),
                    "op": str(n.operator)}
        if isinstance(n, ast.Conditional):
            return {"n": "cond", "c": self.node(n.cond), "t": self.node(n.true_branch),
                    "f": self.node(n.false_branch), "ty": T(n.inferred_type)}
        if isinstance(n, ast.New):
            return {"n": "new", "t": T(n.class_type), "args": L(n.args),
                    "canInfer": getattr(n.class_type, "can_infer_type_args", None) is True}
        if isinstance(n, ast.FieldAccess):
            return {"n": "fieldaccess", "e": self.node(n.expr), "field": n.field}
        if isinstance(n, ast.FunctionCall):
            return {"n": "call", "func": n.func, "args": L(n.args), "receiver": self.node(n.receiver),
                    "targs": self.tys(n.type_args), "canInfer": bool(n.can_infer_type_args),
                    "isRefCall": bool(n.is_ref_call)}
        if isinstance(n, ast.Assignment):
            return {"n": "assign", "name": n.name, "expr": self.node(n.expr), "receiver": self.node(n.receiver)}
        raise TypeError("unknown AST node " + type(n).__name__)


def export_context(ctx):
    out = []
    for ns, ents in ctx._context.items():
        for kind in ("types", "funcs", "lambdas", "vars", "classes", "decls"):
            for name in ents[kind]:
                out.append([list(ns), kind, name])
    return out


def export_ctxinfo(ctx):
    """parallel to `export_context`: None / class_type of a ClassDeclaration / -1"""
    out = []
    for ns, ents in ctx._context.items():
        for kind in ("types", "funcs", "lambdas", "vars", "classes", "decls"):
            for v in ents[kind].values():
                if v is None:
                    out.append(None)
                elif isinstance(v, ast.ClassDeclaration) and isinstance(v.class_type, int):
                    out.append(int(v.class_type))
                else:
                    out.append(-1)
    return out


def export_program(p):
    e = Exporter()
    decls = [e.node(d) for d in p.declarations]
    return {"lang": p.language, "tt": e.tt.entries, "decls": decls, "context": export_context(p.context),
            "ctxinfo": export_ctxinfo(p.context)}


def count_nodes(j):
    if isinstance(j, dict):
        return (1 if "n" in j else 0) + sum(count_nodes(v) for v in j.values())
    if isinstance(j, list):
        return sum(count_nodes(v) for v in j)
    return 0
