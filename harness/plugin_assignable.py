"""pipeline plugin (C05): records every call of `Generator._get_assignable_vars`.

Per call (inside the worker, on the live objects):
  * `jl`    : `self._inside_java_lambda`
  * `vars`  : for every variable of `context.get_vars(namespace).values()` (dict order) the inputs of the Lean
              model `Heph.Assignable.assignableVars`, computed HERE by calling the (pure) helpers the real loop
              calls: `isFinal` (the attribute, `None` if the declaration has none), `searched`
              (`_get_var_type_to_search` answers a type that is not a function type), `fields`
              ([name, is_final] of the class `_get_class` finds, `None` if it finds none)
  * `out`   : what the real function returned, canonicalised as [receiver name | None, target name, is_final of
              the DECLARED target] — the finality is looked up on the declaration the target denotes (the variable
              itself, or the field of that name in the class of the receiver variable), independently of the
              filter; `"TypeError"` if the call raised it
  * `bad`   : the specification-side judgement: candidates whose declared target is final (or that cannot be
              resolved), and any candidate at all inside a Java lambda.
Only the first `assignable_cap` calls of a program are kept in full (all are judged and counted)."""


def describe(gen):
    infos = []
    for var in gen.context.get_vars(gen.namespace).values():
        fin = getattr(var, "is_final", None)
        t = gen._get_var_type_to_search(var.get_type())
        searched = bool(t) and not isinstance(getattr(t, "t_constructor", None), gen.function_type)
        fields = None
        if searched:
            r = gen._get_class(t)
            if r is not None:
                fields = [[f.name, bool(f.is_final)] for f in r[0].fields]
        infos.append({"name": var.name, "isFinal": None if fin is None else bool(fin), "searched": bool(searched),
                      "fields": fields})
    return infos


def declared_finality(gen, recv, target):
    """is_final of the declaration an assignment `recv.target = …` / `target = …` would write; None = unresolved"""
    vars_ = gen.context.get_vars(gen.namespace)
    if recv is None:
        d = vars_.get(target.name)
        if d is None or d is not target:
            return None
        return bool(getattr(d, "is_final", True))
    d = vars_.get(recv.name)
    if d is None:
        return None
    t = gen._get_var_type_to_search(d.get_type())
    if not t:
        return None
    r = gen._get_class(t)
    if r is None:
        return None
    for f in r[0].fields:
        if f.name == target.name:
            return bool(f.is_final)
    return None


def install(state, spec):
    from src.generators.generator import Generator
    orig = Generator._get_assignable_vars
    state["orig"] = orig
    state["calls"] = []
    state["n"] = 0
    state["bad"] = []
    state["tally"] = {}
    cap = spec.get("assignable_cap", 200)

    def tally(k):
        state["tally"][k] = state["tally"].get(k, 0) + 1

    def wrapped(self):
        idx = state["n"]
        state["n"] += 1
        jl = bool(self._inside_java_lambda)
        try:
            infos = describe(self)
        except Exception as e:   # a helper failing is reported, not swallowed
            infos = {"error": repr(e)}
        try:
            res = orig(self)
        except TypeError:
            if idx < cap:
                state["calls"].append({"i": idx, "jl": jl, "vars": infos, "out": "TypeError"})
            tally("TypeError")
            raise
        out, bad = [], []
        for recv, target in res:
            fin = declared_finality(self, recv, target)
            rn = None if recv is None else recv.name
            out.append([rn, target.name, fin])
            if fin is not False or jl:
                bad.append([rn, target.name, fin])
        rec = {"i": idx, "jl": jl, "vars": infos, "out": out}
        if bad:
            rec["bad"] = bad
            state["bad"].append(rec)
        if idx < cap:
            state["calls"].append(rec)
        tally("inside-java-lambda" if jl else ("empty" if not out else "candidates"))
        for o in out:
            tally("cand:variable" if o[0] is None else "cand:field")
        return res

    Generator._get_assignable_vars = wrapped


def uninstall(state):
    from src.generators.generator import Generator
    Generator._get_assignable_vars = state["orig"]


def collect(state):
    return {"calls": state["calls"], "n": state["n"], "bad": state["bad"][:5], "nbad": len(state["bad"]),
            "tally": state["tally"]}
