"""C03 — the STRUCTURED stream: small hand-built IR programs from a grammar of erasure-relevant shapes.

A program is described by a JSON-able *descriptor* (the replay); `build(desc, lang)` makes a fresh
`ast.Program` from it with the real `src.ir.ast` / `src.ir.types` classes and the builtin factory of
the language; `run_family(spec)` drives the real `TypeErasure` on it exactly as `pipeline.run_one`
does for a generated program (same constructor call, `transform()`, `result()`, plugins installed
around it, by-value exports and translations before and after) and returns a result of the same
shape, so every judge of check_C03 applies to it.

descriptor  {"globals": [stmt…], "funs": [fun…]}  over a fixed universe of classes and functions:

  class A<T>            { fun dup(): A<T> = A<T>();  fun get(): T }           (open)
  class B<U>(f: U) : A<U>() { fun up(): A<U> = A<U>() }
  class W<V>(w: A<V>)
  class S1 : A<String>()
  class K(fa: A<String>) { fun <KH> make(): KH;  fun <KG> mkA(): A<KG>;  fun <KI> idm(h: KI): KI }
  class H(var h: A<String>)
  class N<X, Y : X>(n: X)
  fun <F1> mk(): F1        fun <F2> mkA(): A<F2>      fun <F3> mkB(): B<F3>
  fun <F4> id(p: F4): F4   fun <F5> wrap(p: F5): A<F5>  fun <F6> un(p: A<F6>): F6
  fun use(p: A<String>): Unit     fun useAny(p: Any): Unit    fun cst(): String

  type  ::= "S" | "I" | "Num" | "Bool" | "Any" | "Unit" | "K" | "H" | "S1" | [C, type…]   (C in A, B, W, N)
  expr  ::= ["str"] | ["int"] | ["bool"] | ["var", x] | ["new", C, [type…], [expr…]]
          | ["call", f, [type…], [expr…], expr|null] | ["fa", expr, field]
          | ["cond", expr, expr, expr, type] | ["eq", expr, expr] | ["bottom", type]
  stmt  ::= ["val", x, type|null, expr, type(inferred), final?] | ["assign", x, expr, expr|null] | ["do", expr]
  fun   ::= ["fun", name, type, [[pname, type]…], ["expr", expr] | ["block", [stmt…], expr|null]]
"""
import itertools
import signal
import time
import traceback

CLASSES = ("A", "B", "W", "N")
BASE = ("S", "I", "Num", "Bool", "Any", "Unit")


# ------------------------------------------------------------------ the universe
class Universe:
    """fresh class / function declarations for one program (TypeErasure mutates type objects)"""

    def __init__(self, lang):
        from src.ir import ast, types as tp, BUILTIN_FACTORIES
        self.ast, self.tp = ast, tp
        self.bt = BUILTIN_FACTORIES[lang]
        self.lang = lang
        bt = self.bt
        self.base = {"S": bt.get_string_type(), "I": bt.get_integer_type(), "Num": bt.get_number_type(),
                     "Bool": bt.get_boolean_type(), "Any": bt.get_any_type(), "Unit": bt.get_void_type()}
        CM, FN = ast.FunctionDeclaration.CLASS_METHOD, ast.FunctionDeclaration.FUNCTION
        REG = ast.ClassDeclaration.REGULAR
        self.cls = {}
        # A<T>
        T = tp.TypeParameter("T")
        a = ast.ClassDeclaration("A", [], REG, fields=[], functions=[], is_final=False, type_parameters=[T])
        self.cls["A"] = a
        con_a = a.get_type()
        self.con = {"A": con_a}
        a.functions = [
            ast.FunctionDeclaration("dup", [], con_a.new([T]), ast.New(con_a.new([T]), []), CM),
            ast.FunctionDeclaration("get", [], T, ast.BottomConstant(T), CM),
        ]
        # B<U>(f: U) : A<U>()
        U = tp.TypeParameter("U")
        b = ast.ClassDeclaration("B", [ast.SuperClassInstantiation(con_a.new([U]), [])], REG,
                                 fields=[ast.FieldDeclaration("f", U)], functions=[], is_final=False,
                                 type_parameters=[U])
        self.cls["B"] = b
        self.con["B"] = b.get_type()
        b.functions = [ast.FunctionDeclaration("up", [], con_a.new([U]), ast.New(con_a.new([U]), []), CM)]
        # W<V>(w: A<V>)
        V = tp.TypeParameter("V")
        w = ast.ClassDeclaration("W", [], REG, fields=[ast.FieldDeclaration("w", con_a.new([V]))], functions=[],
                                 type_parameters=[V])
        self.cls["W"] = w
        self.con["W"] = w.get_type()
        # S1 : A<String>()
        s1 = ast.ClassDeclaration("S1", [ast.SuperClassInstantiation(con_a.new([self.base["S"]]), [])], REG,
                                  fields=[], functions=[])
        self.cls["S1"] = s1
        # K(fa: A<String>)
        KH, KG, KI = tp.TypeParameter("KH"), tp.TypeParameter("KG"), tp.TypeParameter("KI")
        k = ast.ClassDeclaration("K", [], REG, fields=[ast.FieldDeclaration("fa", con_a.new([self.base["S"]]))],
                                 functions=[])
        k.functions = [
            ast.FunctionDeclaration("make", [], KH, ast.BottomConstant(KH), CM, type_parameters=[KH]),
            ast.FunctionDeclaration("mkAm", [], con_a.new([KG]), ast.New(con_a.new([KG]), []), CM,
                                    type_parameters=[KG]),
            ast.FunctionDeclaration("idm", [ast.ParameterDeclaration("h", KI)], KI, ast.Variable("h"), CM,
                                    type_parameters=[KI]),
        ]
        self.cls["K"] = k
        # H(var h: A<String>)
        h = ast.ClassDeclaration("H", [], REG, fields=[ast.FieldDeclaration("h", con_a.new([self.base["S"]]),
                                                                            is_final=False)], functions=[])
        self.cls["H"] = h
        # N<X, Y : X>(n: X)
        X = tp.TypeParameter("X")
        Y = tp.TypeParameter("Y", bound=X)
        n = ast.ClassDeclaration("N", [], REG, fields=[ast.FieldDeclaration("n", X)], functions=[],
                                 type_parameters=[X, Y])
        self.cls["N"] = n
        self.con["N"] = n.get_type()
        # functions
        F = [tp.TypeParameter("F%d" % i) for i in range(1, 8)]
        P = ast.ParameterDeclaration
        void = self.base["Unit"]
        self.funcs = [
            ast.FunctionDeclaration("mk", [], F[0], ast.BottomConstant(F[0]), FN, type_parameters=[F[0]]),
            ast.FunctionDeclaration("mkA", [], con_a.new([F[1]]), ast.New(con_a.new([F[1]]), []), FN,
                                    type_parameters=[F[1]]),
            ast.FunctionDeclaration("mkB", [], self.con["B"].new([F[2]]),
                                    ast.BottomConstant(self.con["B"].new([F[2]])), FN, type_parameters=[F[2]]),
            ast.FunctionDeclaration("id", [P("p", F[3])], F[3], ast.Variable("p"), FN, type_parameters=[F[3]]),
            ast.FunctionDeclaration("wrap", [P("p", F[4])], con_a.new([F[4]]), ast.New(con_a.new([F[4]]), []), FN,
                                    type_parameters=[F[4]]),
            ast.FunctionDeclaration("un", [P("p", con_a.new([F[5]]))], F[5], ast.BottomConstant(F[5]), FN,
                                    type_parameters=[F[5]]),
            ast.FunctionDeclaration("use", [P("p", con_a.new([self.base["S"]]))], void, ast.Block([]), FN),
            ast.FunctionDeclaration("useAny", [P("p", self.base["Any"])], void, ast.Block([]), FN),
            ast.FunctionDeclaration("cst", [], self.base["S"], ast.StringConstant("c"), FN),
        ]

    def ty(self, d):
        """a FRESH type object for a type descriptor"""
        if isinstance(d, str):
            if d in self.base:
                return self.base[d]
            return self.cls[d].get_type()
        return self.con[d[0]].new([self.ty(x) for x in d[1:]])

    def expr(self, d):
        ast = self.ast
        k = d[0]
        if k == "str":
            return ast.StringConstant("s")
        if k == "int":
            return ast.IntegerConstant(1, self.base["I"])
        if k == "bool":
            return ast.BooleanConstant("true")
        if k == "bottom":
            return ast.BottomConstant(self.ty(d[1]))
        if k == "var":
            return ast.Variable(d[1])
        if k == "new":
            t = self.ty([d[1]] + list(d[2])) if d[2] else self.ty(d[1])
            return ast.New(t, [self.expr(x) for x in d[3]])
        if k == "call":
            return ast.FunctionCall(d[1], [ast.CallArgument(self.expr(x)) for x in d[3]],
                                    receiver=None if d[4] is None else self.expr(d[4]),
                                    type_args=[self.ty(x) for x in d[2]])
        if k == "fa":
            return ast.FieldAccess(self.expr(d[1]), d[2])
        if k == "cond":
            return ast.Conditional(self.expr(d[1]), self.expr(d[2]), self.expr(d[3]), self.ty(d[4]))
        if k == "eq":
            return ast.EqualityExpr(self.expr(d[1]), self.expr(d[2]), ast.Operator("=="))
        raise ValueError("expression descriptor " + repr(d))

    def stmt(self, d):
        ast = self.ast
        k = d[0]
        if k == "val":
            final = d[5] if len(d) > 5 else True
            return ast.VariableDeclaration(d[1], self.expr(d[3]), is_final=final,
                                           var_type=None if d[2] is None else self.ty(d[2]),
                                           inferred_type=self.ty(d[4]))
        if k == "assign":
            return ast.Assignment(d[1], self.expr(d[2]), None if d[3] is None else self.expr(d[3]))
        if k == "do":
            return self.expr(d[1])
        raise ValueError("statement descriptor " + repr(d))

    def fun(self, d):
        ast = self.ast
        _, name, ret, params, body = d
        ps = [ast.ParameterDeclaration(n, self.ty(t)) for n, t in params]
        if body[0] == "expr":
            b = self.expr(body[1])
        else:
            b = ast.Block([self.stmt(s) for s in body[1]] + ([] if body[2] is None else [self.expr(body[2])]))
        return ast.FunctionDeclaration(name, ps, self.ty(ret), b, ast.FunctionDeclaration.FUNCTION)


CLASS_DEPS = {"A": (), "B": ("A",), "W": ("A",), "S1": ("A",), "K": ("A",), "H": ("A",), "N": ()}
FUNC_DEPS = {"mk": (), "mkA": ("A",), "mkB": ("B", "A"), "id": (), "wrap": ("A",), "un": ("A",), "use": ("A",),
             "useAny": (), "cst": ()}


def used_names(d, acc):
    if isinstance(d, str):
        acc.add(d)
    elif isinstance(d, (list, tuple)):
        for x in d:
            used_names(x, acc)
    elif isinstance(d, dict):
        for x in d.values():
            used_names(x, acc)
    return acc


def build(desc, lang):
    """a fresh ast.Program for the descriptor: the classes and functions of the universe that the
    descriptor mentions (closed under what their declarations need), then its own declarations"""
    from src.ir import ast, context as ctx
    u = Universe(lang)
    p = ast.Program(ctx.Context(), lang)
    names = used_names(desc, set())
    funcs = [f for f in u.funcs if f.name in names]
    classes = set()
    for n in names:
        if n in CLASS_DEPS:
            classes.add(n)
            classes.update(CLASS_DEPS[n])
    for f in funcs:
        classes.update(FUNC_DEPS[f.name])
    for c in ("A", "B", "W", "S1", "K", "H", "N"):
        if c in classes:
            p.add_declaration(u.cls[c])
    for f in funcs:
        p.add_declaration(f)
    for g in desc.get("globals", []):
        p.add_declaration(u.stmt(g))
    for f in desc.get("funs", []):
        p.add_declaration(u.fun(f))
    return p


# ------------------------------------------------------------------ the grammar of shapes
def T_A(e):
    return ["A", e]


def inits(e="S"):
    """initializer kinds: name -> (prelude statements, expression, its type)"""
    c = ["str"] if e == "S" else ["int"]
    other = "I" if e == "S" else "S"
    newA = ["new", "A", [e], []]
    out = {
        "const": ([], c, e),
        "newA": ([], newA, T_A(e)),
        "newB": ([], ["new", "B", [e], [c]], ["B", e]),
        "newBvar": ([["val", "v0", e, c, e]], ["new", "B", [e], [["var", "v0"]]], ["B", e]),
        "newW": ([], ["new", "W", [e], [newA]], ["W", e]),
        "newWB": ([], ["new", "W", [e], [["new", "B", [e], [c]]]], ["W", e]),
        "newWvar": ([["val", "va", T_A(e), newA, T_A(e)]], ["new", "W", [e], [["var", "va"]]], ["W", e]),
        "newAA": ([], ["new", "A", [T_A(e)], []], T_A(T_A(e))),
        "newBA": ([], ["new", "B", [T_A(e)], [newA]], ["B", T_A(e)]),
        "newBB": ([], ["new", "B", [["B", e]], [["new", "B", [e], [c]]]], ["B", ["B", e]]),
        "newN": ([], ["new", "N", [e, e], [c]], ["N", e, e]),
        "newS1": ([], ["new", "S1", [], []], "S1"),
        "newH": ([], ["new", "H", [], [["new", "A", ["S"], []]]], "H"),
        "mk": ([], ["call", "mk", [e], [], None], e),
        "mkGen": ([], ["call", "mk", [T_A(e)], [], None], T_A(e)),
        "mkA": ([], ["call", "mkA", [e], [], None], T_A(e)),
        "mkB": ([], ["call", "mkB", [e], [], None], ["B", e]),
        "id": ([], ["call", "id", [e], [c], None], e),
        "idNew": ([], ["call", "id", [T_A(e)], [newA], None], T_A(e)),
        "wrap": ([], ["call", "wrap", [e], [c], None], T_A(e)),
        "un": ([], ["call", "un", [e], [newA], None], e),
        "unVar": ([["val", "va", T_A(e), newA, T_A(e)]], ["call", "un", [e], [["var", "va"]], None], e),
        "unS1": ([], ["call", "un", ["S"], [["new", "S1", [], []]], None], "S"),
        "rcvNewA_dup": ([], ["call", "dup", [], [], newA], T_A(e)),
        "rcvNewA_get": ([], ["call", "get", [], [], newA], e),
        "rcvNewB_up": ([], ["call", "up", [], [], ["new", "B", [e], [c]]], T_A(e)),
        "rcvNewB_dup": ([], ["call", "dup", [], [], ["new", "B", [e], [c]]], T_A(e)),
        "rcvVar_dup": ([["val", "va", T_A(e), newA, T_A(e)]], ["call", "dup", [], [], ["var", "va"]], T_A(e)),
        "rcvField_dup": ([], ["call", "dup", [], [], ["fa", ["new", "K", [], [["new", "A", ["S"], []]]], "fa"]],
                         T_A("S")),
        "rcvMkA_dup": ([], ["call", "dup", [], [], ["call", "mkA", [e], [], None]], T_A(e)),
        "rcvCond_dup": ([], ["call", "dup", [], [], ["cond", ["bool"], newA, ["new", "A", [e], []], T_A(e)]], T_A(e)),
        "fldNewB": ([], ["fa", ["new", "B", [e], [c]], "f"], e),
        "fldNewW": ([], ["fa", ["new", "W", [e], [newA]], "w"], T_A(e)),
        "fldK": ([], ["fa", ["new", "K", [], [["new", "A", ["S"], []]]], "fa"], T_A("S")),
        "Kmake": ([], ["call", "make", [e], [], ["new", "K", [], [["new", "A", ["S"], []]]]], e),
        "KmkA": ([], ["call", "mkAm", [e], [], ["new", "K", [], [["new", "A", ["S"], []]]]], T_A(e)),
        "Kidm": ([], ["call", "idm", [e], [c], ["new", "K", [], [["new", "A", ["S"], []]]]], e),
        "condNewA": ([], ["cond", ["bool"], newA, ["new", "A", [e], []], T_A(e)], T_A(e)),
        "condNewB": ([], ["cond", ["bool"], ["new", "B", [e], [c]], ["new", "B", [e], [c]], ["B", e]], ["B", e]),
        "condMix": ([["val", "va", T_A(e), newA, T_A(e)]], ["cond", ["bool"], ["var", "va"], newA, T_A(e)], T_A(e)),
        "condMk": ([], ["cond", ["bool"], ["call", "mk", [e], [], None], c, e], e),
        "condEq": ([["val", "va", T_A(e), newA, T_A(e)]],
                   ["cond", ["eq", ["new", "A", [e], []], ["var", "va"]], ["var", "va"], newA, T_A(e)], T_A(e)),
        "eqNew": ([["val", "va", T_A(e), newA, T_A(e)]], ["eq", ["new", "A", [e], []], ["var", "va"]], "Bool"),
        "var": ([["val", "va", T_A(e), newA, T_A(e)]], ["var", "va"], T_A(e)),
        "varMk": ([["val", "vm", e, ["call", "mk", [e], [], None], e]], ["var", "vm"], e),
        "varMkA": ([["val", "vm", T_A(e), ["call", "mkA", [e], [], None], T_A(e)]], ["var", "vm"], T_A(e)),
        "chainDup": ([["val", "vm", T_A(e), ["call", "mkA", [e], [], None], T_A(e)]],
                     ["call", "dup", [], [], ["var", "vm"]], T_A(e)),
        "chainB": ([["val", "vm", e, ["call", "mk", [e], [], None], e]], ["new", "B", [e], [["var", "vm"]]], ["B", e]),
        "bottom": ([], ["bottom", T_A(e)], T_A(e)),
    }
    del other
    return out


def expected_types(t):
    """expected-type contexts of a value of type t: name -> declared type (None = no annotation)"""
    out = {"same": t, "none": None, "any": "Any"}
    if isinstance(t, list) and t[0] == "B":
        out["superP"] = ["A"] + t[1:]
    if t == "S1":
        out["superP"] = ["A", "S"]
    if t == "I":
        out["superN"] = "Num"
    return out


DECL_KINDS = ("local", "fexpr", "fblock", "assign", "fieldassign", "arg", "global", "localvar")


def shape(init, decl, exp, e="S"):
    """descriptor of the program  <decl kind> with <expected type> := <init kind>, or None when
    the combination does not exist"""
    pre, x, t = inits(e)[init]
    exps = expected_types(t)
    if exp not in exps:
        return None
    d = exps[exp]
    if decl in ("local", "localvar"):
        body = list(pre) + [["val", "x", d, x, t, decl == "local"]]
        return {"funs": [["fun", "test", "Unit", [], ["block", body, None]]]}
    if decl == "fexpr":
        if d is None or pre:
            return None
        return {"funs": [["fun", "g", d, [], ["expr", x]]]}
    if decl == "fblock":
        if d is None:
            return None
        return {"funs": [["fun", "g", d, [], ["block", list(pre), x]]]}
    if decl == "assign":
        if d is None:
            return None
        body = list(pre) + [["val", "x", d, ["bottom", d], d, False], ["assign", "x", x, None]]
        return {"funs": [["fun", "test", "Unit", [], ["block", body, None]]]}
    if decl == "fieldassign":
        if t != ["A", "S"] or exp != "same":
            return None
        body = list(pre) + [["val", "hh", "H", ["new", "H", [], [["new", "A", ["S"], []]]], "H"],
                            ["assign", "h", x, ["var", "hh"]]]
        return {"funs": [["fun", "test", "Unit", [], ["block", body, None]]]}
    if decl == "arg":
        if exp == "same" and t == ["A", "S"]:
            f = "use"
        elif exp == "any":
            f = "useAny"
        else:
            return None
        return {"funs": [["fun", "test", "Unit", [], ["block", list(pre) + [["do", ["call", f, [], [x], None]]], None]]]}
    if decl == "global":
        if pre:
            return None
        return {"globals": [["val", "x", d, x, t]],
                "funs": [["fun", "test", "Unit", [], ["block", [["val", "y", "S", ["str"], "S"]], None]]]}
    raise ValueError(decl)


def enumerate_shapes():
    """the exhaustive-small part: every (initializer, declaration kind, expected type) that exists,
    element type String; a second element type for the call / receiver kinds"""
    out = []
    names = list(inits("S"))
    for init in names:
        for decl in DECL_KINDS:
            for exp in ("same", "superP", "superN", "any", "none"):
                d = shape(init, decl, exp, "S")
                if d is not None:
                    out.append(("%s/%s/%s/S" % (init, decl, exp), d))
    for init in ("mk", "id", "newB", "rcvNewA_dup", "rcvNewB_up", "newN", "const"):
        for decl in ("local", "fexpr"):
            for exp in ("same", "superP", "superN", "none"):
                d = shape(init, decl, exp, "I")
                if d is not None:
                    out.append(("%s/%s/%s/I" % (init, decl, exp), d))
    return out


def random_composition(rng):
    """a function whose block is a sequence of declarations of the grammar with distinct names, later
    ones may use earlier variables of a fitting type; plus possibly an expression-bodied function"""
    names = list(inits("S"))
    stmts, have = [], {}
    n = rng.randint(2, 4)
    for i in range(n):
        e = rng.choice(("S", "S", "I"))
        init = rng.choice(names)
        pre, x, t = inits(e)[init]
        ren = {}
        for s in pre:
            ren[s[1]] = "%s%d" % (s[1], i)
        x = rename(x, ren)
        for s in pre:
            stmts.append(["val", ren[s[1]], s[2] if rng.random() < 0.8 else None, rename(s[3], ren), s[4]])
        # re-use an earlier variable of the same type as the whole initializer sometimes
        key = repr(t)
        if key in have and rng.random() < 0.3:
            x = ["var", rng.choice(have[key])]
        exps = expected_types(t)
        exp = rng.choice(sorted(exps))
        d = exps[exp]
        kind = rng.choice(("val", "val", "val", "assign", "arg"))
        if kind == "assign" and d is not None:
            stmts.append(["val", "x%d" % i, d, ["bottom", d], d, False])
            stmts.append(["assign", "x%d" % i, x, None])
            have.setdefault(repr(d), []).append("x%d" % i)
        elif kind == "arg" and t == ["A", "S"]:
            stmts.append(["do", ["call", "use", [], [x], None]])
        else:
            stmts.append(["val", "x%d" % i, d, x, t, rng.random() < 0.8])
            have.setdefault(repr(d if d is not None else t), []).append("x%d" % i)
    funs = [["fun", "test", "Unit", [], ["block", stmts, None]]]
    if rng.random() < 0.5:
        e = rng.choice(("S", "I"))
        cands = [k for k in names if not inits(e)[k][0]]
        init = rng.choice(cands)
        _, x, t = inits(e)[init]
        exps = {k: v for k, v in expected_types(t).items() if v is not None}
        funs.append(["fun", "g", exps[rng.choice(sorted(exps))], [], ["expr", x]])
    return {"funs": funs}


def rename(x, ren):
    if isinstance(x, list):
        if len(x) == 2 and x[0] == "var" and x[1] in ren:
            return ["var", ren[x[1]]]
        return [rename(y, ren) for y in x]
    return x


QUICK_DECLS = ("local", "fexpr", "fblock", "assign", "fieldassign", "arg")


def family_specs(rng, n_random, langs=("java", "kotlin", "groovy", "scala"), quick=False):
    """specs of the structured stream: the exhaustive part in Java (javac judges it) and, rotating,
    in one of the other languages; then random compositions.  The quick tier leaves out the
    declaration kinds `global` and `localvar` (they repeat `local` with another flag / namespace)"""
    specs = []
    others = [l for l in langs if l != "java"] or list(langs)
    shapes = enumerate_shapes()
    if quick:
        shapes = [(n, d) for n, d in shapes if n.split("/")[1] in QUICK_DECLS]
    for i, (name, d) in enumerate(shapes):
        if "java" in langs:
            specs.append(make_spec(name, d, "java"))
        specs.append(make_spec(name, d, others[i % len(others)]))
    for i in range(n_random):
        d = random_composition(rng)
        specs.append(make_spec("random#%d" % i, d, langs[i % len(langs)]))
    for i, sp in enumerate(specs):
        sp["package"] = "fam.p%d" % i       # Java texts of different programs can be compiled together
    return specs


def make_spec(name, desc, lang):
    if lang == "scala" and "Num" in used_names(desc, set()):
        lang = "kotlin"       # scala's Int is not a subtype of Number: the descriptor would be ill-typed there
    return {"family": desc, "name": name, "lang": lang, "seed": 0, "switches": [0, 0, 0, 0], "max_depth": 0,
            "stages": ["gen", "erase"], "export": True, "translate": [lang] if lang in ("java", "kotlin") else None,
            "cap": 30, "plugins": ["plugin_tda"], "erasure_options": {}}


# ------------------------------------------------------------------ the real pipeline on a built program
class _Cut(BaseException):
    pass


def _alarm(signum, frame):
    raise _Cut()


def run_family(spec):
    """as pipeline.run_one from the snapshot of the generated program on, for a built program"""
    import pipeline
    pipeline.setup()
    from src import utils
    import export_ast
    out = {"spec": spec, "stages": {}, "times": {}}
    lang = spec["lang"]
    plugins = [__import__(name) for name in spec.get("plugins", [])]
    old = signal.signal(signal.SIGALRM, _alarm)
    signal.setitimer(signal.ITIMER_REAL, spec.get("cap", 30))
    stage = "gen"
    pstate = {}
    try:
        for pl in plugins:
            pl.install(pstate, spec)
        pipeline.configure(lang, tuple(spec.get("switches", (0, 0, 0, 0))), 6)
        t0 = time.time()
        program = build(spec["family"], lang)
        out["times"]["gen"] = time.time() - t0

        def snapshot(name, extra=None):
            st = dict(extra or {})
            st["export"] = export_ast.export_program(program)
            tl = spec.get("translate")
            if tl:
                st["texts"] = {}
                for l2 in tl:
                    tr = pipeline.new_translator(l2, spec.get("package", "src.pkg"), spec.get("translator_options"))
                    st["texts"][l2] = utils.translate_program(tr, program)
            for pl in plugins:
                if hasattr(pl, "stage"):
                    pl.stage(pstate, name, program, st)
            out["stages"][name] = st
        snapshot("gen")
        stage = "erase"
        from src.transformations.type_erasure import TypeErasure
        t0 = time.time()
        te = TypeErasure(program, lang, None, dict(spec.get("erasure_options", {})))
        te.transform()
        program = te.result()
        out["times"]["erase"] = time.time() - t0
        snapshot("erase", {"is_transformed": bool(te.is_transformed)})
        stage = "done"
    except _Cut:
        out["cutoff"] = stage
    except Exception as e:  # noqa: BLE001
        out["exception"] = {"stage": stage, "type": type(e).__name__, "msg": str(e)[:500],
                            "traceback": traceback.format_exc()[-3000:]}
    finally:
        signal.setitimer(signal.ITIMER_REAL, 0)
        signal.signal(signal.SIGALRM, old)
        for pl in plugins:
            try:
                out.setdefault("plugins", {})[pl.__name__] = pl.collect(pstate)
            except Exception as e:  # noqa: BLE001
                out.setdefault("plugins", {})[pl.__name__] = {"error": repr(e)}
            if hasattr(pl, "uninstall"):
                pl.uninstall(pstate)
    return out


if __name__ == "__main__":
    import sys
    shapes = enumerate_shapes()
    print(len(shapes), "shapes")
    del itertools
    sys.exit(0)
