"""C17 — generation switches are honoured (partial).

proof side : lean/Heph/Props/C17.lean
             * decision functions (`argVariance`, `genTypeParamFlags`, `funcGenTypeParams`) obey the
               switches for every draw: argVariance_disabled_variance/_contravariance,
               no_bound_at_zero, no_func_type_params_at_zero, func_type_params_invariant,
               class_type_params_invariant;
             * `switchesOK_spec`: the executable whole-program scanner `switchesOK cfg lang p`
               holds iff the program honours the switches in the property's own wording
               (`Honoured`: over every sub-term of every type occurrence of every reachable node).
tie to code: (1) `_get_type_arg_variance` exhaustively (switches x declared variance x
             variance_choices x has_bound_of patterns): the set of answers over many RNG seeds
             must equal the model's candidate list, and every answer is judged by a reference
             decision table written from the property text;
             (2) the draws `gen_type_params` / `gen_func_decl` really make in generator runs
             (recorded by harness/plug_c17.py) replayed through the models;
             (3) `switchesOK` on the export of EVERY generated program (16 switch sets x 4
             languages x seeds), its verdict table under six (cfg, lang) rows compared with an
             independent scan of the real program objects (plug_c17.scan_program: generic
             attribute walk, no exporter, no Lean).
failing    : an answer of `_get_type_arg_variance` outside what the switches allow (replay =
input       the call), or a generated program that contains a forbidden feature (replay =
             (lang, seed, switches) + path of the first offending occurrence + creating call site).
"""
import os

import common
import pipeline
import plug_c17

LEVEL = "proof"

VNAME = {0: "Invariant", 1: "Covariant", 2: "Contravariant"}
PER_SIGNATURE = 3


def report(run, obj, signature):
    """at most PER_SIGNATURE replays per shape signature; the rest is only counted"""
    n = run.cov.setdefault("flagged_by_signature", {})
    n[signature] = n.get(signature, 0) + 1
    if n[signature] <= PER_SIGNATURE:
        run.violation(obj, signature=signature)

# rows of the verdict table asked from the verified predicate for every program: each row
# isolates one clause of the property
ROWS = [
    {"cfg": [1, 0, 0, 0], "lang": "kotlin", "forbids": ["projection"]},
    {"cfg": [0, 1, 0, 0], "lang": "kotlin", "forbids": ["contra-projection"]},
    {"cfg": [0, 0, 1, 0], "lang": "kotlin", "forbids": ["bound"]},
    {"cfg": [0, 0, 0, 1], "lang": "kotlin", "forbids": ["func-tparams"]},
    {"cfg": [0, 0, 0, 0], "lang": "java", "forbids": ["variant-class-tparam"]},
    {"cfg": [0, 0, 0, 0], "lang": "scala", "forbids": []},
]
ALWAYS = ["variant-func-tparam"]


def forbidden_features(cfg, lang):
    """the property text, as a table: which features of a program the switches forbid"""
    f = list(ALWAYS)
    if cfg[0]:
        f.append("projection")
    if cfg[1]:
        f.append("contra-projection")
    if cfg[2]:
        f.append("bound")
    if cfg[3]:
        f.append("func-tparams")
    if lang not in ("kotlin", "scala"):
        f.append("variant-class-tparam")
    return f


# =====================================================================================
# (1) _get_type_arg_variance
# =====================================================================================
def ref_arg_variance_allowed(dis, dv, vc_entry, vc_none, in_bound):
    """reference decision table, from the property text (C08/C17), NOT from the code:
    which answers are allowed."""
    allowed = {0}
    if vc_none or in_bound or dis[0]:
        return allowed
    can_co, can_contra = vc_entry
    if can_co and dv in (0, 1):
        allowed.add(1)
    if can_contra and not dis[1] and dv in (0, 2):
        allowed.add(2)
    return allowed


def arg_variance_cases():
    import src.ir.types as tp
    import src.ir.kotlin_types as kt
    cases = []
    variances = [tp.Invariant, tp.Covariant, tp.Contravariant]
    for dis in [(0, 0), (0, 1), (1, 0), (1, 1)]:
        for dv in variances:
            for vcname in ["none", "empty", "TT", "TF", "FT", "FF", "other"]:
                for later in ["no-later", "unrelated", "bounded-by-it", "bound-mentions-it", "mixed"]:
                    cases.append((dis, dv, vcname, later))
    return cases


def build_arg_variance_case(case):
    import src.ir.types as tp
    import src.ir.kotlin_types as kt
    dis, dv, vcname, later = case
    t_param = tp.TypeParameter("T", dv)
    other = tp.TypeParameter("Z")
    vc = {"none": None, "empty": {}, "TT": {t_param: (True, True)}, "TF": {t_param: (True, False)},
          "FT": {t_param: (False, True)}, "FF": {t_param: (False, False)},
          "other": {other: (False, False)}}[vcname]
    lst = tp.TypeConstructor("Lst", [tp.TypeParameter("E")], [kt.AnyType()])
    unrelated = tp.TypeParameter("U", bound=kt.String)
    by_it = tp.TypeParameter("V", bound=t_param)
    mentions = tp.TypeParameter("W", bound=lst.new([t_param]))
    others = {"no-later": [], "unrelated": [unrelated, other], "bounded-by-it": [by_it],
              "bound-mentions-it": [unrelated, mentions], "mixed": [by_it, unrelated]}[later]
    return t_param, vc, others


def run_arg_variance_case(case, seeds):
    """observed answers of the real function, the has_bound_of answers it was given"""
    import src.ir.type_utils as tu
    from src import utils
    from src.generators.config import cfg
    dis = case[0]
    t_param, vc, others = build_arg_variance_case(case)
    old = (cfg.dis.use_site_variance, cfg.dis.use_site_contravariance)
    cfg.dis.use_site_variance, cfg.dis.use_site_contravariance = bool(dis[0]), bool(dis[1])
    seen = {}
    try:
        later = [bool(o.has_bound_of(t_param)) for o in others]
        for s in seeds:
            utils.random.r.seed(s)
            try:
                v = tu._get_type_arg_variance(t_param, vc, others)
                a = getattr(v, "value", repr(v))
            except Exception as e:
                a = type(e).__name__
            seen.setdefault(a, s)
    finally:
        cfg.dis.use_site_variance, cfg.dis.use_site_contravariance = old
    return t_param, vc, others, later, seen


def stream_arg_variance(run):
    import export
    nseeds = 48 if run.tier == "quick" else 160
    base = run.rng.randrange(1 << 30)
    seeds = [base + i for i in range(nseeds)]
    cases = arg_variance_cases()
    rqs, meta = [], []
    for case in cases:
        t_param, vc, others, later, seen = run_arg_variance_case(case, seeds)
        tt = export.TypeTable()
        rq = {"op": "inst.arg_variance", "dis": list(case[0]), "later": later,
              "vc": None if vc is None else [[tt.add(k), bool(v[0]), bool(v[1])] for k, v in vc.items()],
              "tparam": tt.add(t_param)}
        rq["tt"] = tt.entries
        rqs.append(rq)
        meta.append((case, later, seen))
    answers = common.run_driver(rqs)
    bad_corr = []
    for rq, (case, later, seen), a in zip(rqs, meta, answers):
        if "error" in a:
            raise common.HarnessError("inst.arg_variance: %s on %s" % (a["error"], common.canon(rq)[:300]))
        cand = a["r"]
        dis, dv, vcname, lname = case
        dvv = export.VAR(dv)
        run.count({"stream": "arg_variance", "dis": list(dis), "declared": dvv, "vc": vcname, "later": lname,
                   "observed": sorted(map(str, seen)), "candidates": cand}, nontrivial=len(cand) > 1)
        run.cov["traces_validated_against_impl"] += 1
        run.tally("ops", "inst.arg_variance")
        run.tally("arg_variance_candidates", ",".join(map(str, cand)))
        # specification-side judge of the code's answers
        entry = {"none": (True, True), "empty": (True, True), "TT": (True, True), "TF": (True, False),
                 "FT": (False, True), "FF": (False, False), "other": (True, True)}[vcname]
        allowed = ref_arg_variance_allowed(dis, dvv, entry, vcname == "none", any(later))
        for ans, seed in seen.items():
            if ans not in allowed:
                sw = ("use-site-variance-disabled" if dis[0] else
                      "use-site-contravariance-disabled" if (dis[1] and ans == 2) else
                      "caller-or-declaration-forbids")
                report(run, {"kind": "arg_variance", "case": [list(dis), dvv, vcname, lname], "rng_seed": seed,
                             "answer": VNAME.get(ans, ans), "allowed": sorted(allowed),
                             "note": "_get_type_arg_variance answered a variance the switches / the caller's "
                                     "choices / the declared variance do not allow"},
                       "arg_variance:%s:answers-%s" % (sw, VNAME.get(ans, ans)))
        # correspondence with the model: observed set == candidate set
        if set(seen) != set(cand):
            bad_corr.append((case, later, sorted(map(str, seen)), cand, sorted(allowed)))
    if bad_corr:
        run.broken.append({"obligation": "correspondence inst.arg_variance", "detail": [str(b) for b in bad_corr[:5]]})
        for case, later, seen, cand, allowed in bad_corr[:3]:
            run.log("arg_variance differs: case=%s later=%s observed=%s model=%s allowed=%s" % (case, later, seen, cand, allowed))
        if not run.violations:
            # model and code differ but no answer is outside the specification
            c = bad_corr[0]
            run.violation({"kind": "arg_variance_correspondence", "case": [list(c[0][0]), export.VAR(c[0][1]), c[0][2], c[0][3]],
                           "observed": c[2], "model": c[3],
                           "note": "correspondence inst.arg_variance (theorems argVariance_disabled_* are about the model)"},
                          signature="arg_variance:correspondence", no_input=True)
    run.log("arg_variance: %d cases x %d seeds, %d correspondence differences" % (len(cases), nseeds, len(bad_corr)))


# =====================================================================================
# (2) the draws of gen_type_params / gen_func_decl, replayed through the models
# =====================================================================================
def decision_requests(res):
    """requests + expectations from the plugin records of one run"""
    out = []     # (request, expected, description)
    pl = (res.get("plugins") or {}).get("plug_c17") or {}
    spec = res["spec"]
    sw = list(spec["switches"])
    lang = spec["lang"]
    for g in pl.get("gtp", []):
        d = list(g["draws"])
        i = 0
        ok = True
        if not g["count"]:
            if not d or d[0][0] != "bool" or d[0][1] != [1, 2]:
                out.append((None, None, ("gtp-shape", "first draw of gen_type_params is not bool(0.5)", g)))
                continue
            if d[0][3]:
                if g["result"]:
                    out.append((None, None, ("gtp-shape", "early return but type parameters", g)))
                continue
            i = 1
        for (var, has_bound) in g["result"]:
            r_var = [0, 1]
            chosen = None
            if g["with_variance"]:
                if i >= len(d) or d[i][0] != "bool":
                    ok = False
                    break
                r_var = d[i][2]
                if d[i][3]:
                    if i + 1 >= len(d) or d[i + 1][0] != "choice":
                        ok = False
                        break
                    chosen = d[i + 1][1]
                    i += 1
                i += 1
            if i >= len(d) or d[i][0] != "bool":
                ok = False
                break
            r_bound, p_b = d[i][2], d[i][1]
            i += 1
            rq = {"op": "switches.type_param_flags", "with_variance": g["with_variance"], "p_bounded": p_b,
                  "r_var": r_var, "r_bound": r_bound}
            out.append((rq, {"var": var, "chosen": chosen, "bound": has_bound, "p_b": p_b, "cfg": sw, "lang": lang,
                             "caller": g["caller"], "with_variance": g["with_variance"],
                             "for_function": g["for_function"]}, ("gtp", g["caller"])))
        if not ok or i != len(d):
            out.append((None, None, ("gtp-shape", "draw sequence does not match the loop of gen_type_params", g)))
    for f in pl.get("gfd", []):
        if f["nested"] or f["given"]:
            r = [0, 1]
            if f["draws"]:
                out.append((None, None, ("gfd-shape", "parameterized_functions drawn although nested/given", f)))
                continue
        else:
            if len(f["draws"]) != 1:
                out.append((None, None, ("gfd-shape", "expected exactly one parameterized_functions draw", f)))
                continue
            r = f["draws"][0]["x"]
        rq = {"op": "switches.func_gen_type_params", "nested": f["nested"], "given": f["given"],
              "p_func": f["p_func"], "r": r}
        out.append((rq, {"f": f, "cfg": sw, "lang": lang}, ("gfd", "")))
    return out


def check_decisions(run, results):
    rqs, exps = [], []
    shape_bad = []
    cfgrq, cfgkeys = [], []
    for res in results:
        for rq, exp, desc in decision_requests(res):
            if rq is None:
                shape_bad.append(desc)
            else:
                rqs.append(rq)
                exps.append((exp, desc, res["spec"]))
    for sw in pipeline.all_switch_settings():
        for lang in pipeline.LANGS:
            cfgrq.append({"op": "switches.cfg_probs", "cfg": list(sw), "lang": lang})
            cfgkeys.append((tuple(sw), lang))
    cfgans = {k: a["r"] for k, a in zip(cfgkeys, common.run_driver(cfgrq))}
    answers = common.run_driver(rqs) if rqs else []
    bad = []
    ngtp = ngfd = 0
    for rq, (exp, desc, spec), a in zip(rqs, exps, answers):
        if "error" in a:
            raise common.HarnessError("%s: %s" % (rq["op"], a["error"]))
        m = a["r"]
        probs = cfgans[(tuple(exp["cfg"]), exp["lang"])]
        run.cov["traces_validated_against_impl"] += 1
        run.tally("ops", rq["op"])
        if desc[0] == "gtp":
            ngtp += 1
            cands, has_bound = m
            why = None
            if exp["var"] not in cands:
                why = "declared variance %s not among the model's candidates %s" % (exp["var"], cands)
            elif exp["chosen"] is not None and (cands != [0, 1, 2] or exp["chosen"] != exp["var"]):
                why = "a variance was chosen (%s) where the model draws none" % exp["chosen"]
            elif exp["chosen"] is None and cands != [0]:
                why = "no variance chosen but the model offers %s" % cands
            elif has_bound != exp["bound"]:
                why = "bound generated: code %s, model %s" % (exp["bound"], has_bound)
            elif exp["p_b"] != probs["bounded"]:
                why = "cfg.prob.bounded_type_parameters is %s, model of args.py says %s" % (exp["p_b"], probs["bounded"])
            elif exp["caller"] == "gen_func_decl" and (exp["with_variance"] or not exp["for_function"]):
                why = "gen_func_decl called gen_type_params with with_variance=%s" % exp["with_variance"]
            elif exp["caller"] != "gen_func_decl" and exp["with_variance"] != probs["decl_variance"]:
                why = "with_variance=%s for language %s" % (exp["with_variance"], exp["lang"])
            run.count({"stream": "gen_type_params", "with_variance": exp["with_variance"], "cands": cands,
                       "bound": has_bound, "p": exp["p_b"], "caller": exp["caller"]}, nontrivial=True)
            if why:
                bad.append(("gen_type_params", why, rq, exp, spec))
        else:
            ngfd += 1
            f = exp["f"]
            why = None
            drew = bool(f["draws"]) and f["draws"][0]["res"]
            if m is None and drew:
                why = "the draw succeeded but the model generates no type parameters"
            elif m is not None and not drew:
                why = "the model generates type parameters but the draw failed"
            elif m not in (None, False):
                why = "model passes with_variance=%s" % m
            elif f["p_func"] != probs["param_funcs"]:
                why = "cfg.prob.parameterized_functions is %s, model of args.py says %s" % (f["p_func"], probs["param_funcs"])
            elif m is None and not f["given"] and f["ntparams"]:
                why = "function has type parameters although none were generated"
            run.count({"stream": "gen_func_decl", "nested": f["nested"], "given": f["given"], "model": m,
                       "p": f["p_func"]}, nontrivial=True)
            if why:
                bad.append(("gen_func_decl", why, rq, exp, spec))
    for desc in shape_bad:
        bad.append((desc[0], desc[1], None, desc[2], None))
    if bad:
        run.broken.append({"obligation": "correspondence of the generator's draws (gen_type_params / gen_func_decl)",
                           "detail": [b[:2] for b in bad[:5]]})
        for b in bad[:3]:
            run.log("decision differs:", b[0], b[1], common.canon(b[3])[:300])
    run.log("decision draws replayed: gen_type_params %d, gen_func_decl %d, differences %d" % (ngtp, ngfd, len(bad)))
    return bad


# =====================================================================================
# (3) every generated program
# =====================================================================================
def program_specs(run):
    nseeds = 3 if run.tier == "quick" else 40
    cap = 40 if run.tier == "quick" else 60
    base = run.seed * 1000
    specs = []
    for k in range(nseeds):
        for lang in pipeline.LANGS:
            for sw in pipeline.all_switch_settings():
                specs.append({"lang": lang, "seed": base + k, "switches": sw, "stages": ["gen"], "cap": cap,
                              "plugins": ["plug_c17"]})
    return specs


def _safe_run_one(spec):
    """pipeline.run_one; its alarm can fire while its own `finally` block runs (seen under heavy
    load): the stray Cutoff would kill the pool worker and hang the pool — count it as a cut-off"""
    try:
        return pipeline.run_one(spec)
    except pipeline.Cutoff:
        import signal
        signal.setitimer(signal.ITIMER_REAL, 0)
        return {"spec": spec, "stages": {}, "times": {}, "cutoff": "late-alarm"}


def run_many_safe(specs, workers=None):
    import multiprocessing as mp
    workers = workers or min(14, max(1, (os.cpu_count() or 2) - 2))
    ctx = mp.get_context("fork")
    with ctx.Pool(workers, initializer=pipeline.setup, maxtasksperchild=50) as pool:
        return pool.map(_safe_run_one, specs, chunksize=1)


def signature_of(answer, pyscan):
    """shape signature of a program-level violation: switch and kind of the offending occurrence,
    where it sits, which call created it (never a seed, never a name)"""
    reason = answer.get("reason", "?")
    if reason.startswith("bounded-type-parameters-disabled"):
        reason = "bounded-type-parameters-disabled:bound"
    path = answer.get("path", [])
    where = "in-type-parameter-bound" if "bound" in path else "outside-bounds"
    origin = "unattributed"
    if "projection" in reason:
        orgs = (pyscan or {}).get("origins", {})
        named = sorted({k.split("|", 1)[1] for k in orgs if not k.endswith("unattributed")})
        if named:
            origin = named[0].split("<-")[0]
        return "switches:%s:%s:%s" % (reason, where, origin)
    return "switches:%s" % reason


def judge_programs(run, results, replaying=False):
    """verdicts of the verified scanner on the exports + comparison with the independent scan"""
    keep, rq_ok, rq_tab = [], [], []
    for r in results:
        g = r["stages"].get("gen", {})
        if "export" not in g:
            run.tally("programs", "cutoff" if "cutoff" in r else "exception" if "exception" in r else "no-export")
            continue
        e = g["export"]
        keep.append(r)
        rq_ok.append(dict(e, op="switches.ok", cfg=list(r["spec"]["switches"])))
        rq_tab.append(dict(e, op="switches.table", rows=[{"cfg": x["cfg"], "lang": x["lang"]} for x in ROWS]))
    if not keep:
        return 0
    ans_ok = common.run_driver(rq_ok)
    ans_tab = common.run_driver(rq_tab)
    nviol = 0
    for r, a, t in zip(keep, ans_ok, ans_tab):
        spec = r["spec"]
        sw, lang = list(spec["switches"]), spec["lang"]
        if "error" in a or "error" in t:
            raise common.HarnessError("switches.ok: %s" % (a.get("error") or t.get("error")))
        py = r["stages"]["gen"].get("pyscan") or {}
        if "error" in py or "features" not in py:
            raise common.HarnessError("independent scan failed: %s" % py)
        feats = set(py["features"])
        run.tally("programs", "judged")
        run.tally("programs_by_lang", lang)
        run.tally("programs_by_switches", "".join(map(str, sw)))
        for f in feats:
            if not f.startswith("kind:"):
                run.tally("features_present", f)
        run.cov["traces_validated_against_impl"] += 1
        run.count({"stream": "program", "lang": lang, "seed": spec["seed"], "switches": sw, "features": sorted(feats),
                   "verdict": a["r"] if a["r"] == "ok" else a["r"].get("reason")}, nontrivial=True)
        # (a) correspondence: verdict table of the verified predicate == table derived from the independent scan
        expected = [not (set(row["forbids"] + ALWAYS) & feats) for row in ROWS]
        expected_here = not (set(forbidden_features(sw, lang)) & feats)
        model_here = a["r"] == "ok"
        if t["r"] != expected or model_here != expected_here:
            run.broken.append({"obligation": "correspondence switches.ok / independent scan",
                               "detail": {"lang": lang, "seed": spec["seed"], "switches": sw, "features": sorted(feats),
                                          "model_table": t["r"], "scan_table": expected, "model_here": model_here}})
            run.log("scanner and independent scan differ:", lang, spec["seed"], sw, sorted(feats), t["r"], expected, a["r"] if model_here else a["r"].get("reason"))
        # (b) the property itself, judged by either side
        if not model_here or not expected_here:
            nviol += 1
            info = a["r"] if isinstance(a["r"], dict) else {"path": [], "reason": "independent-scan:" + ",".join(sorted(set(forbidden_features(sw, lang)) & feats))}
            sig = signature_of(info, py)
            run.tally("program_violations", "%s|%s|%s" % (sig, lang, "".join(map(str, sw))))
            tvf = ((r.get("plugins") or {}).get("plug_c17") or {}).get("tvf", [])
            seen, sites = set(), []
            for x in tvf:
                k = (tuple(x.get("chain", [])[:3]), x.get("result"))
                if k not in seen and len(sites) < 6:
                    seen.add(k)
                    sites.append(x)
            report(run, {"kind": "program", "lang": lang, "gen_seed": spec["seed"], "switches": sw,
                         "max_depth": spec.get("max_depth", 6), "path": info.get("path"), "reason": info.get("reason"),
                         "count": info.get("count"), "reasons": info.get("reasons"),
                         "features": sorted(feats), "origins": py.get("origins"),
                         "projection_creating_calls": sites,
                         "note": "generated program contains a feature its switches forbid"}, sig)
    return nviol


def stream_programs(run):
    specs = program_specs(run)
    run.log("generating %d programs (16 switch sets x 4 languages x %d seeds)" % (len(specs), len(specs) // 64))
    results = []
    step = 256
    for i in range(0, len(specs), step):
        rs = run_many_safe(specs[i:i + step])
        tg = [r["times"].get("gen", 0) for r in rs]
        run.log("generated: cpu-sum %.0fs, slowest %.0fs, cut off %d" % (sum(tg), max(tg + [0]), sum(1 for r in rs if "cutoff" in r)))
        nv = judge_programs(run, rs)
        bad = check_decisions(run, rs)
        results_n = len(rs)
        run.log("batch %d..%d judged, violations so far in batch: %d" % (i, i + results_n, nv))
        if bad and not run.violations:
            b = bad[0]
            run.violation({"kind": "decision_correspondence", "function": b[0], "why": b[1], "request": b[2],
                           "record": b[3], "spec": b[4],
                           "note": "the generator's draw logic differs from genTypeParamFlags / funcGenTypeParams; no program "
                                   "violating the switches was found"}, signature="switches:decision-correspondence:" + b[0],
                          no_input=True)
    prog = run.cov.get("programs", {})
    run.cov["rule"] = ("one case per (_get_type_arg_variance input class) / per recorded draw of gen_type_params, "
                       "gen_func_decl / per generated program (lang, seed, switches); nontrivial = more than one "
                       "candidate, resp. every program")
    if prog.get("judged", 0) < max(8, len(specs) // 4):
        raise common.HarnessError("too few programs generated within the cap: %s of %d" % (prog, len(specs)))


def check(run):
    run.build_and_audit()
    pipeline.setup()
    stream_arg_variance(run)
    stream_programs(run)
    if run.broken and not run.violations:
        run.violation({"kind": "broken", "obligations": run.broken[:5],
                       "note": "a proof obligation or a correspondence of C17 no longer checks; no failing input found"},
                      signature="C17:broken-obligation", no_input=True)
    run.assumptions.append("finding 12 (projections created by to_type_variable_free under --disable-use-site-variance) is "
                           "judged by shape signature; see known_findings.json")


def replay(run, rp):
    run.build_and_audit()
    pipeline.setup()
    kind = rp.get("kind")
    if kind == "program":
        spec = {"lang": rp["lang"], "seed": rp["gen_seed"], "switches": tuple(rp["switches"]), "stages": ["gen"],
                "cap": 300, "plugins": ["plug_c17"], "max_depth": rp.get("max_depth", 6)}
        rs = [pipeline.run_one(spec)]
        n = judge_programs(run, rs)
        run.log("replayed program: %d violation(s)" % n)
    elif kind == "arg_variance":
        import src.ir.types as tp
        dis, dvv, vcname, lname = rp["case"]
        dv = {0: tp.Invariant, 1: tp.Covariant, 2: tp.Contravariant}[dvv]
        case = (tuple(dis), dv, vcname, lname)
        t_param, vc, others, later, seen = run_arg_variance_case(case, [rp["rng_seed"]])
        entry = {"none": (True, True), "empty": (True, True), "TT": (True, True), "TF": (True, False),
                 "FT": (False, True), "FF": (False, False), "other": (True, True)}[vcname]
        allowed = ref_arg_variance_allowed(tuple(dis), dvv, entry, vcname == "none", any(later))
        for ans, seed in seen.items():
            run.count({"replay": rp["case"], "answer": ans})
            if ans not in allowed:
                run.violation(dict(rp, answer=VNAME.get(ans, ans)), signature=rp.get("signature"))
        run.log("replayed _get_type_arg_variance: answers %s allowed %s" % (sorted(map(str, seen)), sorted(allowed)))
    else:
        stream_arg_variance(run)
