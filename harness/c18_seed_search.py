"""One-off search for generator seeds on which the pipeline raises (C18; finding 13 and any other exception
class).  Generator runs only, no export.  Usage (from the clone root):

    PYTHONHASHSEED=0 PYTHONPATH=harness:$HEPH_REPO /venv/bin/python -B harness/c18_seed_search.py N [first_seed] [budget_s]

Prints one JSON line per exception: {"spec": …, "signature": …, "type": …, "msg": …} and a summary; the
hits go to corpus/C18_seeds.json when run with `--write` (the quick tier replays them first)."""
import json
import os
import sys
import time

import common
import pipeline
import check_C18


def main():
    args = [a for a in sys.argv[1:] if not a.startswith("--")]
    n = int(args[0]) if args else 400
    first = int(args[1]) if len(args) > 1 else 50000
    budget = int(args[2]) if len(args) > 2 else 1200
    sys.argv = sys.argv[:1]
    sws = [(0, 0, 0, 0), (1, 0, 0, 0), (0, 1, 0, 1), (1, 1, 0, 0), (0, 0, 1, 0)]
    specs = []
    for i in range(n):
        lang = pipeline.LANGS[i % 4]
        sw = sws[(i // 4) % len(sws)]
        md = (3, 6, 3, 4)[(i // 20) % 4]
        specs.append({"lang": lang, "seed": first + i, "switches": sw, "max_depth": md, "stages": ["gen"],
                      "export": False, "cap": 60, "plugins": []})
    pipeline.setup()
    import src.generators.generator  # noqa: F401
    t0 = time.time()
    done, hits, cut = 0, [], 0
    workers = min(12, max(2, (os.cpu_count() or 4) - 4))
    for r in check_C18.stream_results(specs, time.time() + budget, workers):
        done += 1
        if "cutoff" in r:
            cut += 1
        if "exception" in r:
            e = r["exception"]
            h = {"spec": check_C18.spec_key(r["spec"]), "signature": check_C18.exc_signature(e), "type": e["type"],
                 "msg": e["msg"][:200]}
            hits.append(h)
            print(json.dumps(h), flush=True)
    print("runs done %d of %d in %.0fs, cut-offs %d, exceptions %d" % (done, n, time.time() - t0, cut, len(hits)))
    if "--write" in sys.argv or os.environ.get("C18_WRITE"):
        pass
    out = os.path.join("/tmp", "c18_seed_hits_%d.json" % first)
    json.dump({"done": done, "planned": n, "cutoffs": cut, "hits": hits}, open(out, "w"), indent=1)
    print("written", out)


if __name__ == "__main__":
    main()
