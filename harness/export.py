"""By-value export of hephaestus type objects (trusted translator, see DESIGN appendix A).

`TypeTable` hash-conses types into a table whose entries refer to earlier entries by index
(the driver rebuilds trees from it); `tree(t)` is the canonical nested form used to compare
type-valued answers of the model with the implementation's results."""
import src.ir.types as tp

VAR = lambda v: getattr(v, "value", 0)  # noqa: E731


def _nothing_flag(t):
    return type(t).is_subtype is not tp.Builtin.is_subtype


def kind(t):
    if isinstance(t, tp.ParameterizedType):
        return "p"
    if isinstance(t, tp.TypeConstructor):
        return "c"
    if isinstance(t, tp.TypeParameter):
        return "v"
    if isinstance(t, tp.WildCardType):
        return "w"
    if isinstance(t, tp.Builtin):
        return "b"
    if isinstance(t, tp.SimpleClassifier):
        return "s"
    if t is tp.Nothing or isinstance(t, tp.NothingType):
        return "n"
    return "x"


class TypeTable:
    def __init__(self):
        self.entries = []
        self._idx = {}
        self._memo = {}   # id(object) -> (object, index): objects are not mutated during one export

    def add(self, t):
        if t is None:
            return None
        m = self._memo.get(id(t))
        if m is not None and m[0] is t:
            return m[1]
        e = self._entry(t)
        key = repr(e)
        i = self._idx.get(key)
        if i is None:
            i = len(self.entries)
            self.entries.append(e)
            self._idx[key] = i
        self._memo[id(t)] = (t, i)
        return i

    def _lst(self, ts):
        return [self.add(x) for x in list(ts)]

    def _entry(self, t):
        k = kind(t)
        if k == "b":
            return {"k": "b", "cls": str(type(t)), "name": t.get_name(), "nothing": _nothing_flag(t),
                    "prim": bool(getattr(t, "primitive", False)), "sups": self._lst(t.supertypes)}
        if k == "s":
            return {"k": "s", "name": str(t.name), "sups": self._lst(t.supertypes)}
        if k == "v":
            return {"k": "v", "name": str(t.name), "var": VAR(t.variance), "bound": self.add(t.bound)}
        if k == "w":
            return {"k": "w", "var": VAR(t.variance), "bound": self.add(t.bound)}
        if k == "c":
            return {"k": "c", "cls": str(type(t)), "name": str(t.name),
                    "params": self._lst(t.type_parameters), "sups": self._lst(t.supertypes)}
        if k == "p":
            return {"k": "p", "name": str(t.name), "con": self.add(t.t_constructor),
                    "args": self._lst(t.type_args), "sups": self._lst(t.supertypes)}
        if k == "n":
            return {"k": "n"}
        return {"k": "x", "cls": str(type(t))}


def tree(t):
    """canonical nested form (the driver prints the same shape)"""
    if t is None:
        return None
    k = kind(t)
    L = lambda ts: [tree(x) for x in list(ts)]  # noqa: E731
    if k == "b":
        return {"k": "b", "cls": str(type(t)), "name": t.get_name(), "nothing": _nothing_flag(t),
                "prim": bool(getattr(t, "primitive", False)), "sups": L(t.supertypes)}
    if k == "s":
        return {"k": "s", "name": str(t.name), "sups": L(t.supertypes)}
    if k == "v":
        return {"k": "v", "name": str(t.name), "var": VAR(t.variance), "bound": tree(t.bound)}
    if k == "w":
        return {"k": "w", "var": VAR(t.variance), "bound": tree(t.bound)}
    if k == "c":
        return {"k": "c", "cls": str(type(t)), "name": str(t.name), "params": L(t.type_parameters),
                "sups": L(t.supertypes)}
    if k == "p":
        return {"k": "p", "name": str(t.name), "con": tree(t.t_constructor), "args": L(t.type_args),
                "sups": L(t.supertypes)}
    if k == "n":
        return {"k": "n"}
    return {"k": "x", "cls": str(type(t))}


def short(t):
    """human-readable rendering for logs and evidence samples"""
    if t is None:
        return "None"
    k = kind(t)
    if k == "p":
        return "%s<%s>" % (t.name, ", ".join(short(a) for a in t.type_args))
    if k == "w":
        if t.bound is None:
            return "*"
        return "%s %s" % ({1: "out", 2: "in"}.get(VAR(t.variance), "inv"), short(t.bound))
    if k == "v":
        v = {1: "out ", 2: "in "}.get(VAR(t.variance), "")
        return "%s%s%s" % (v, t.name, (" : " + short(t.bound)) if t.bound is not None else "")
    if k == "c":
        return "%s<%s>(con)" % (t.name, ", ".join(short(p) for p in t.type_parameters))
    if k == "b":
        return t.get_name()
    if k == "n":
        return "Nothing!"
    return str(getattr(t, "name", t))


def extra_assignable_table():
    """pairs (class of self, class of other) of built-ins for which `is_assignable` answers yes;
    covers the `type(other) in assignable_types` clauses of the Java/Groovy numeric types"""
    import src.ir.java_types as jt
    import src.ir.groovy_types as gt
    import src.ir.kotlin_types as kt
    import src.ir.scala_types as st
    pairs = set()
    for fac in (jt.JavaBuiltinFactory(), gt.GroovyBuiltinFactory(), kt.KotlinBuiltinFactory(),
                st.ScalaBuiltinFactory()):
        ts = [t for t in fac.get_non_nothing_types() if isinstance(t, tp.Builtin) and not t.is_type_constructor()]
        for t in list(ts):
            try:
                ts.append(type(t)(primitive=True))
            except TypeError:
                pass
        for a in ts:
            for b in ts:
                try:
                    if a.is_assignable(b) and not a.is_subtype(b):
                        pairs.add((str(type(a)), str(type(b))))
                except Exception:
                    pass
    return sorted(pairs)


def digest(t, memo):
    """structural digest of a type (by value), memoised per call site in `memo` (id -> digest);
    the memo must be discarded whenever objects may have been mutated"""
    if t is None:
        return 0
    m = memo.get(id(t))
    if m is not None and m[0] is t:
        return m[1]
    k = kind(t)
    D = lambda ts: tuple(digest(x, memo) for x in list(ts))  # noqa: E731
    if k == "b":
        d = ("b", str(type(t)), t.get_name(), bool(getattr(t, "primitive", False)), D(t.supertypes))
    elif k == "s":
        d = ("s", str(t.name), D(t.supertypes))
    elif k == "v":
        d = ("v", str(t.name), VAR(t.variance), digest(t.bound, memo))
    elif k == "w":
        d = ("w", VAR(t.variance), digest(t.bound, memo))
    elif k == "c":
        d = ("c", str(type(t)), str(t.name), D(t.type_parameters), D(t.supertypes))
    elif k == "p":
        d = ("p", str(t.name), digest(t.t_constructor, memo), D(t.type_args), D(t.supertypes),
             bool(getattr(t, "_can_infer_type_args", False)))
    elif k == "n":
        d = ("n",)
    else:
        d = ("x", str(type(t)))
    h = hash(d)
    memo[id(t)] = (t, h)
    return h
