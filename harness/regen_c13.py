"""Regenerates lean/Heph/Generated/PickleClasses.lean from $HEPH_REPO/src/ir/*.py on every run (C13).

For every class defined in src/ir/*.py: does the `__hash__` / `__eq__` it defines or inherits read
attributes of `self`?  (An instance of such a class must not be hashed between NEWOBJ and BUILD:
its `__dict__` is empty then.)

Purely syntactic (Python's `ast`), trusted:
 * classes and their base expressions per module; imports `import src.ir.x as y`, `from src.ir import x as y`,
   `from src.ir.x import A as B` are followed to resolve base names; unresolvable bases (`object`, `ABC`…)
   are ignored; the method resolution order is the C3 linearisation over the resolved bases;
 * the class that provides `__hash__` is the first one in the MRO whose body defines `__hash__`
   (a `def` or an assignment) or defines `__eq__` (Python then sets `__hash__ = None`: unhashable);
   none found: `object.__hash__` (identity, reads nothing);
 * a method *reads* iff its body mentions the first parameter other than as `self.__class__`.
`live()` derives the same table by introspection (real MRO + `inspect.getsource`) — the check compares
the two and stops with a harness error if they differ."""
import ast
import os

import common

PKG = "src.ir"


def _files():
    d = os.path.join(common.REPO, "src", "ir")
    return d, sorted(f for f in os.listdir(d) if f.endswith(".py") and f != "__init__.py")


def _reads_self(fn):
    if not isinstance(fn, (ast.FunctionDef, ast.AsyncFunctionDef)):
        return False
    if not fn.args.args:
        return False
    me = fn.args.args[0].arg
    allowed = set()
    for n in ast.walk(fn):
        if isinstance(n, ast.Attribute) and isinstance(n.value, ast.Name) and n.value.id == me \
                and n.attr == "__class__":
            allowed.add(id(n.value))
    for n in ast.walk(fn):
        if isinstance(n, ast.Name) and n.id == me and id(n) not in allowed:
            return True
    return False


def _parse_module(path, modname):
    tree = ast.parse(open(path, encoding="utf-8").read())
    aliases, names, classes = {}, {}, {}
    for st in ast.walk(tree):
        if isinstance(st, ast.Import):
            for a in st.names:
                if a.name.startswith(PKG + "."):
                    aliases[a.asname or a.name] = a.name
        elif isinstance(st, ast.ImportFrom) and st.module:
            for a in st.names:
                if st.module == PKG:
                    aliases[a.asname or a.name] = PKG + "." + a.name
                elif st.module.startswith(PKG + "."):
                    names[a.asname or a.name] = (st.module, a.name)
    for st in tree.body:
        if isinstance(st, ast.ClassDef):
            meth = {}
            for b in st.body:
                if isinstance(b, (ast.FunctionDef, ast.AsyncFunctionDef)) and b.name in ("__hash__", "__eq__"):
                    meth[b.name] = b
                elif isinstance(b, ast.Assign):
                    for t in b.targets:
                        if isinstance(t, ast.Name) and t.id in ("__hash__", "__eq__"):
                            meth[t.id] = b
            classes[st.name] = {"bases": st.bases, "meth": meth, "line": st.lineno}
    return {"aliases": aliases, "names": names, "classes": classes, "mod": modname}


def _dotted(e):
    parts = []
    while isinstance(e, ast.Attribute):
        parts.append(e.attr)
        e = e.value
    if isinstance(e, ast.Name):
        parts.append(e.id)
        return list(reversed(parts))
    return None


def _resolve(mods, m, e):
    d = _dotted(e)
    if d is None:
        return None
    info = mods[m]
    if len(d) == 1:
        if d[0] in info["classes"]:
            return (m, d[0])
        if d[0] in info["names"]:
            mm, nn = info["names"][d[0]]
            # re-exported names: follow one more step
            if mm in mods and nn in mods[mm]["classes"]:
                return (mm, nn)
            if mm in mods and nn in mods[mm]["names"]:
                return mods[mm]["names"][nn]
        return None
    head, cls = ".".join(d[:-1]), d[-1]
    mm = info["aliases"].get(head, head if head in mods else None)
    if mm in mods and cls in mods[mm]["classes"]:
        return (mm, cls)
    if mm in mods and cls in mods[mm]["names"]:
        return mods[mm]["names"][cls]
    return None


def _c3(key, bases_of, memo):
    if key in memo:
        return memo[key]
    bases = bases_of(key)
    seqs = [list(_c3(b, bases_of, memo)) for b in bases] + [list(bases)]
    out = [key]
    while any(seqs):
        for s in seqs:
            if not s:
                continue
            cand = s[0]
            if not any(cand in t[1:] for t in seqs):
                break
        else:
            raise common.HarnessError("regen_c13: no C3 linearisation for %s.%s" % key)
        out.append(cand)
        for s in seqs:
            if s and s[0] == cand:
                del s[0]
    memo[key] = out
    return out


def collect():
    d, files = _files()
    mods = {}
    for f in files:
        m = PKG + "." + f[:-3]
        mods[m] = _parse_module(os.path.join(d, f), m)

    def bases_of(key):
        m, c = key
        out = []
        for e in mods[m]["classes"][c]["bases"]:
            r = _resolve(mods, m, e)
            if r is not None and r[0] in mods and r[1] in mods[r[0]]["classes"]:
                out.append(r)
        return out
    rows, memo = [], {}
    for m in sorted(mods):
        for c in sorted(mods[m]["classes"], key=lambda c: mods[m]["classes"][c]["line"]):
            mro = _c3((m, c), bases_of, memo)
            hreads, ereads, hashable, hsrc, esrc = False, False, True, "object", "object"
            for (mm, cc) in mro:
                meth = mods[mm]["classes"][cc]["meth"]
                if "__hash__" in meth:
                    fn = meth["__hash__"]
                    hsrc = "%s.%s" % (mm, cc)
                    if isinstance(fn, ast.Assign):
                        hashable = not (isinstance(fn.value, ast.Constant) and fn.value.value is None)
                    else:
                        hreads = _reads_self(fn)
                    break
                if "__eq__" in meth:
                    hashable, hsrc = False, "%s.%s (defines __eq__ only)" % (mm, cc)
                    break
            for (mm, cc) in mro:
                meth = mods[mm]["classes"][cc]["meth"]
                if "__eq__" in meth:
                    esrc = "%s.%s" % (mm, cc)
                    ereads = _reads_self(meth["__eq__"])
                    break
            rows.append({"module": m, "name": c, "hash_reads": hreads, "eq_reads": ereads, "hashable": hashable,
                         "hash_from": hsrc, "eq_from": esrc})
    return {"files": files, "rows": rows}


def live():
    """the same table from the imported classes (real MRO; method bodies parsed from `inspect.getsource`)"""
    import importlib
    import inspect
    import textwrap
    _, files = _files()
    rows = []
    for f in files:
        m = PKG + "." + f[:-3]
        mod = importlib.import_module(m)
        for name, K in vars(mod).items():
            if not isinstance(K, type) or K.__module__ != m or K.__qualname__ != name:
                continue
            res = {}
            def own(B, meth):
                # the harness (pipeline.setup) installs a reproducible Node.__hash__: not part of the repo
                v = vars(B).get(meth, None) if meth in vars(B) else None
                return meth in vars(B) and not (inspect.isfunction(v) and v.__module__ == "pipeline")
            prov = [next((B for B in K.__mro__ if own(B, meth)), object) for meth in ("__hash__", "__eq__")]
            if not all(B.__module__.startswith(PKG + ".") or B is object for B in prov):
                continue   # e.g. the functional-API Enum `Keywords`: not a class statement, foreign methods
            for meth, B in zip(("__hash__", "__eq__"), prov):
                fn = vars(B).get(meth)
                if fn is None or not inspect.isfunction(fn):
                    res[meth] = False
                else:
                    t = ast.parse(textwrap.dedent(inspect.getsource(fn)))
                    res[meth] = _reads_self(t.body[0])
            hashable = vars(prov[0]).get("__hash__", 1) is not None if prov[0] is not object else True
            rows.append((m, name, res["__hash__"], res["__eq__"], hashable))
    return sorted(rows)


def lean_str(s):
    return '"' + s.replace("\\", "\\\\").replace('"', '\\"') + '"'


def render(r):
    lines = ["/-! GENERATED by harness/regen_c13.py from src/ir/*.py — do not edit. -/",
             "namespace Heph.Generated.PickleClasses", "",
             "/-- (module, class, `__hash__` reads attributes of self, `__eq__` reads attributes of self) for every",
             "class defined in src/ir/*.py; the providing classes are listed in the comments -/",
             "def table : List (String × String × Bool × Bool) := ["]
    body = []
    for x in r["rows"]:
        body.append("  (%s, %s, %s, %s)" % (lean_str(x["module"]), lean_str(x["name"]),
                                          "true" if x["hash_reads"] else "false",
                                          "true" if x["eq_reads"] else "false"))
    lines.append(",\n".join(body))
    lines.append("]")
    lines.append("")
    lines.append("/-- classes whose instances cannot be hashed at all (`__eq__` without `__hash__`) -/")
    lines.append("def unhashable : List (String × String) := [")
    lines.append(",\n".join("  (%s, %s)" % (lean_str(x["module"]), lean_str(x["name"]))
                            for x in r["rows"] if not x["hashable"]))
    lines.append("]")
    lines.append("")
    lines.append("def filesScanned : List String := [" + ", ".join(lean_str(f) for f in r["files"]) + "]")
    lines.append("")
    lines.append("end Heph.Generated.PickleClasses")
    return "\n".join(lines) + "\n"


def regen():
    r = collect()
    txt = render(r)
    dst = os.path.join(common.LEAN, "Heph", "Generated", "PickleClasses.lean")
    old = open(dst, encoding="utf-8").read() if os.path.exists(dst) else None
    if old != txt:
        with open(dst, "w", encoding="utf-8") as f:
            f.write(txt)
    r["changed"] = old != txt
    return r


if __name__ == "__main__":
    r = regen()
    for x in r["rows"]:
        if x["hash_reads"] or x["eq_reads"] or not x["hashable"]:
            print(x)
    lv = live()
    mine = sorted((x["module"], x["name"], x["hash_reads"], x["eq_reads"], x["hashable"]) for x in r["rows"])
    print("classes:", len(mine), "live:", len(lv), "agree:", mine == lv)
    for a in mine:
        if a not in lv:
            print("  only syntactic:", a)
    for a in lv:
        if a not in mine:
            print("  only live:", a)
