"""pipeline plugin (C05): scoping state of the generator inside real runs.

  * knobs     : `spec["knobs"]` (cfg.prob.* / cfg.limits.* values, see c05_direct.KNOB_DEFAULTS) are applied after
                `pipeline.configure` and reset afterwards — the quick tier biases programs towards the scoping machinery
                (more lambdas than function references, more side effects = assignments, more locals)
  * cpu cap   : `spec["cpu_cap"]` seconds of CPU time per program (ITIMER_PROF -> pipeline.Cutoff); the wall-clock cap of
                pipeline.run_one stays as a safety net.  `BUDGET` (a shared counter set by the harness before the pool
                forks): once the CPU seconds spent by all workers exceed it, the remaining programs are skipped
                (cut-off 'gen', tallied): the stream's budget is CPU time, its plan is fixed
  * frame     : `_inside_java_lambda` and `namespace` after every `gen_lambda` / `gen_func_decl` /
                `_gen_func_ref_lambda` / `gen_class_decl` equal their values before the call (`bad`)
  * counters  : lambdas, lambdas nested in a lambda / nested function, nested functions, member functions of
                parameterized classes, helper declarations made by `_gen_matching_func` / `_gen_matching_class` (by the
                shape of the expected type and by where the helper went)."""
import resource
import signal

BUDGET = {"value": None, "limit": None}
WRAPPED = ("gen_lambda", "gen_func_decl", "_gen_func_ref_lambda", "gen_class_decl")


def _cpu():
    r = resource.getrusage(resource.RUSAGE_SELF)
    return r.ru_utime + r.ru_stime


def etype_shape(t):
    if t is None:
        return "none"
    if t.is_type_var():
        return "bare-type-variable"
    if t.has_type_variables():
        return "contains-type-variables"
    return "ground"


def install(shared, spec):
    state = shared.setdefault("plugin_scope", {})      # the state dict is shared by all plugins of a run
    import pipeline
    import c05_direct
    from src.generators.generator import Generator
    state["tally"] = {}
    state["bad"] = []
    state["cpu0"] = _cpu()
    state["orig"] = {}
    if BUDGET["value"] is not None and BUDGET["value"].value >= BUDGET["limit"]:
        state["skipped"] = True
        raise pipeline.Cutoff()
    knobs = spec.get("knobs")
    orig_configure = pipeline.configure
    state["configure"] = orig_configure

    def configure(lang, switches, max_depth):
        orig_configure(lang, switches, max_depth)
        c05_direct._apply_knobs(knobs)
    pipeline.configure = configure

    def tally(k):
        state["tally"][k] = state["tally"].get(k, 0) + 1

    def wrap(name):
        orig = getattr(Generator, name)
        state["orig"][name] = orig

        def wrapped(self, *a, **k):
            before = (tuple(self.namespace), bool(self._inside_java_lambda))
            if name == "gen_lambda":
                tally("lambda")
                if any(x.startswith("lambda_") for x in self.namespace) or self._inside_java_lambda or (
                        len(self.namespace) > 2 and self.namespace[-2][:1].islower() and self.namespace[-2] != "global"):
                    tally("lambda:nested")
            elif name == "gen_func_decl":
                ns = k.get("namespace") or self.namespace
                if len(ns) > 1 and ns[-1][:1].islower():
                    tally("function:nested")
                elif len(ns) > 1 and ns[-1][:1].isupper():
                    cls = self.context.get_classes(("global",)).get(ns[-1])
                    tally("method:of-parameterized-class" if cls is not None and cls.type_parameters else "method")
            res = orig(self, *a, **k)
            after = (tuple(self.namespace), bool(self._inside_java_lambda))
            if after != before and len(state["bad"]) < 5:
                state["bad"].append({"after": name, "before": [list(before[0]), before[1]],
                                     "now": [list(after[0]), after[1]]})
            if after != before:
                tally("frame-not-restored:" + name)
            return res
        setattr(Generator, name, wrapped)
    for n in WRAPPED:
        wrap(n)
    for name in ("_gen_matching_func", "_gen_matching_class"):
        orig = getattr(Generator, name)
        state["orig"][name] = orig

        def wrapped(self, etype, *a, _orig=orig, _name=name, **k):
            nfun = len(self.context.get_funcs(("global",), only_current=True))
            res = _orig(self, etype, *a, **k)
            where = ""
            if _name == "_gen_matching_func" and res is not None and res.receiver_t is None:
                glob = len(self.context.get_funcs(("global",), only_current=True)) > nfun
                where = ":global" if glob else ":current-namespace"
            tally("helper:%s:%s%s" % (_name.replace("_gen_matching_", ""), etype_shape(etype), where))
            return res
        setattr(Generator, name, wrapped)
    cc = spec.get("cpu_cap")
    if cc:
        state["old_prof"] = signal.signal(signal.SIGPROF, pipeline._alarm)
        signal.setitimer(signal.ITIMER_PROF, cc)


def collect(shared):
    state = shared.get("plugin_scope", {})
    if "old_prof" in state:
        signal.setitimer(signal.ITIMER_PROF, 0)
    used = _cpu() - state.get("cpu0", _cpu())
    if BUDGET["value"] is not None and not state.get("skipped"):
        with BUDGET["value"].get_lock():
            BUDGET["value"].value += used
    return {"tally": state.get("tally", {}), "bad": state.get("bad", []), "cpu_s": round(used, 2),
            "skipped": bool(state.get("skipped"))}


def uninstall(shared):
    state = shared.get("plugin_scope", {})
    import pipeline
    import c05_direct
    from src.generators.generator import Generator
    if "old_prof" in state:
        signal.setitimer(signal.ITIMER_PROF, 0)
        signal.signal(signal.SIGPROF, state.pop("old_prof"))
    for n, f in state.get("orig", {}).items():
        setattr(Generator, n, f)
    if "configure" in state:
        pipeline.configure = state.pop("configure")
    c05_direct.reset_knobs()
