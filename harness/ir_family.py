"""A STRUCTURED, hand-built family of IR programs (real `src.ir.ast` / `src.ir.types` objects, the
language's builtin factory, a real `Context`), generated combinatorially from a small grammar:

        member  =  CONTEXT  x  SLOT  x  PROBE            (+ a family of declaration shapes)

 PROBE    an expression of one node kind / variant together with its static type and the declarations it
          needs (constants of every number type, bottom, arrays, variables of every origin, operators,
          conditionals with and without `is` smart casts, `new` with explicit / diamond type arguments,
          field access / assignment with and without receiver, lambdas, function references, and CALLS:
          callee kind {top-level, method with receiver, method of this, nested function, function-typed
          variable / parameter / top-level variable, parameterized function} x fixed parameters {0,1} x
          vararg element {none, boxed, primitive, parameterized} x number of vararg values {0,1,2}).
 SLOT     where the expression sits: returned, last statement of a void block, non-last statement,
          initialiser, argument, vararg value, constructor argument, right side of an assignment (local,
          field, field with receiver), array element, branch of a conditional (plain / `is`), last
          statement of a block used as an expression, body of a lambda / nested function (expression).
 CONTEXT  the function-like thing around the block: top-level function, `main`, method, nested function
          (-> lambda lowering in Java) in a function / method / nested function / lambda, lambda with block
          body (local / top-level variable), the true / false block of an `is` conditional, a nested
          function declared inside such a block, top-level variable, super-constructor argument.

Why: a check that compares a translator with its Lean model (or scans translations) only sees the
branches that the explored programs execute; the generator reaches some shapes once in hundreds of
seeds (e.g. a local function with a vararg parameter called with zero vararg values).  The family
reaches every shape at a fixed index.

API (reusable by C02, C11, C12):
    members(lang)                  -> list of Member descriptors (cheap; nothing built)
    build(member)                  -> ast.Program  (fresh objects on every call)
    quick_slice(members, seed, n)  -> indices of a slice that contains every probe, every slot and every
                                      context at least once (+ seeded random fill)
    neighbours(members, i)         -> indices of members that share two of the three coordinates with i
    Member.valid_target            -> False when the member is well-formed IR but not a valid program of a
                                      Java-like target (e.g. a constant as a non-last statement)
Names of declarations are fixed words (no RNG); `Node` objects are never shared between programs.
"""
import itertools
from collections import OrderedDict

import src.ir.ast as ast
import src.ir.types as tp
from src.ir import BUILTIN_FACTORIES
from src.ir.context import Context

G = ast.GLOBAL_NAMESPACE
FUNC = ast.FunctionDeclaration.FUNCTION
METH = ast.FunctionDeclaration.CLASS_METHOD


class Skip(Exception):
    """the combination is not expressible (e.g. statements needed inside an expression body)"""


# ------------------------------------------------------------------------------------------ context registration
def register(ctx, ns, node):
    """enter `node` (and what it contains) into the Context the way the generator does: declarations under
    the namespace they are visited in by the translators (`change_namespace` appends the name of a class,
    function or lambda; the branches of an `is` conditional live under 'true_block' / 'false_block')"""
    if node is None:
        return
    if isinstance(node, ast.ClassDeclaration):
        ctx.add_class(ns, node.name, node)
        inner = ns + (node.name,)
        for t in node.type_parameters:
            ctx.add_type(inner, t.name, t)
        for f in node.fields:
            ctx.add_var(inner, f.name, f)
        for s in node.superclasses:
            for a in (s.args or []):
                register(ctx, inner, a)
        for f in node.functions:
            register(ctx, inner, f)
    elif isinstance(node, ast.FunctionDeclaration):
        ctx.add_func(ns, node.name, node)
        inner = ns + (node.name,)
        for t in node.type_parameters:
            ctx.add_type(inner, t.name, t)
        for p in node.params:
            ctx.add_var(inner, p.name, p)
        register(ctx, inner, node.body)
    elif isinstance(node, ast.Lambda):
        ctx.add_lambda(ns, node.name, node)
        inner = ns + (node.name,)
        for p in node.params:
            ctx.add_var(inner, p.name, p)
        register(ctx, inner, node.body)
    elif isinstance(node, ast.VariableDeclaration):
        ctx.add_var(ns, node.name, node)
        register(ctx, ns, node.expr)
    elif isinstance(node, ast.Conditional):
        register(ctx, ns, node.cond)
        if isinstance(node.cond, ast.Is):
            register(ctx, ns + ("true_block",), node.true_branch)
            register(ctx, ns + ("false_block",), node.false_branch)
        else:
            register(ctx, ns, node.true_branch)
            register(ctx, ns, node.false_branch)
    else:
        for c in node.children():
            register(ctx, ns, c)


# ------------------------------------------------------------------------------------------ the world of one program
def mangle(t):
    s = str(getattr(t, "name", t))
    if getattr(t, "is_primitive", lambda: False)() and not getattr(t, "type_args", None):
        s = "p" + s
    for a in getattr(t, "type_args", []) or []:
        s += "_" + mangle(a)
    return "".join(ch for ch in s if ch.isalnum() or ch == "_")


class World:
    """top-level declarations of one program, created on demand (so that programs stay small)"""

    def __init__(self, lang):
        self.lang = lang
        self.bt = BUILTIN_FACTORIES[lang]
        self.top = OrderedDict()
        self.ids = itertools.count()
        self.lam = itertools.count()
        b = self.bt
        self.Any, self.Void, self.Number = b.get_any_type(), b.get_void_type(), b.get_number_type()
        self.Int, self.Long, self.Short, self.Byte = (b.get_integer_type(), b.get_long_type(), b.get_short_type(),
                                                      b.get_byte_type())
        self.Float, self.Double = b.get_float_type(), b.get_double_type()
        self.Bool, self.Char, self.String = b.get_boolean_type(), b.get_char_type(), b.get_string_type()
        self.Array = b.get_array_type()
        prim = getattr(b, "get_primitive_types", None)
        self.pInt = next((t for t in prim() if type(t) is type(self.Int)), None) if prim and lang == "java" else None

    # -- helpers
    def add(self, decl, first=False):
        if decl.name in self.top:
            raise ValueError("duplicate top-level name " + decl.name)
        self.top[decl.name] = decl
        if first:
            self.top.move_to_end(decl.name, last=False)
        return decl

    def arr(self, t):
        return self.Array.new([t])

    def fn(self, params, ret):
        return tp.ParameterizedType(self.bt.get_function_type(len(params)), list(params) + [ret])

    def lam_name(self):
        return "lambda_%d" % next(self.lam)

    def default(self, t):
        """an expression of type t that needs nothing"""
        if t == self.Int:
            return ast.IntegerConstant(7, self.Int)
        if t == self.String:
            return ast.StringConstant("d")
        if t == self.Bool:
            return ast.BooleanConstant("true")
        return ast.BottomConstant(t)

    # -- library (memoised by name)
    def func(self, name, params, ret, body, **kw):
        if name in self.top:
            return self.top[name]
        return self.add(ast.FunctionDeclaration(name, params, ret, body, FUNC, **kw))

    def nop(self):
        self.func("nop", [], self.Void, ast.Block([]))
        return ast.FunctionCall("nop", [])

    def sink(self, t):
        n = "sink_" + mangle(t)
        self.func(n, [ast.ParameterDeclaration("p", t)], self.Void, ast.Block([]))
        return n

    def sinkv(self, t):
        n = "sinkv_" + mangle(t)
        self.func(n, [ast.ParameterDeclaration("p", self.arr(t), vararg=True)], self.Void, ast.Block([]))
        return n

    def ident(self, t):
        n = "id_" + mangle(t)
        self.func(n, [ast.ParameterDeclaration("p", t)], t, ast.Block([ast.Variable("p")]))
        return n

    def box(self, t):
        """class Box_T { public T f; }  (non-final field: assignable)"""
        n = "Box_" + mangle(t)
        if n not in self.top:
            self.add(ast.ClassDeclaration(n, [], ast.ClassDeclaration.REGULAR,
                                          fields=[ast.FieldDeclaration("f", t, is_final=False)], functions=[], is_final=True))
        return self.top[n]

    def cls_A(self):
        """open class A(val a: String) { fun ma(): String; fun mv(); var n: Integer }"""
        if "A" not in self.top:
            ma = ast.FunctionDeclaration("ma", [], self.String, ast.Block([ast.Variable("a")]), METH, is_final=False)
            mv = ast.FunctionDeclaration("mv", [], self.Void, ast.Block([]), METH, is_final=False)
            self.add(ast.ClassDeclaration("A", [], ast.ClassDeclaration.REGULAR,
                                          fields=[ast.FieldDeclaration("a", self.String, is_final=True),
                                                  ast.FieldDeclaration("n", self.Int, is_final=False)],
                                          functions=[ma, mv], is_final=False))
        return self.top["A"]

    def new_A(self):
        return ast.New(self.cls_A().get_type(), [ast.StringConstant("x"), ast.IntegerConstant(1, self.Int)])

    def cls_B(self):
        """class B : A("b", 2)"""
        if "B" not in self.top:
            a = self.cls_A()
            self.add(ast.ClassDeclaration("B", [ast.SuperClassInstantiation(
                a.get_type(), [ast.StringConstant("b"), ast.IntegerConstant(2, self.Int)])],
                ast.ClassDeclaration.REGULAR, fields=[], functions=[
                    ast.FunctionDeclaration("mb", [], self.Int, ast.Block([ast.IntegerConstant(3, self.Int)]), METH)],
                is_final=True))
        return self.top["B"]

    def cls_G(self):
        """class G<T>(var x: T) { fun get(): T = x }"""
        if "G" not in self.top:
            t = tp.TypeParameter("T")
            get = ast.FunctionDeclaration("get", [], t, ast.Block([ast.Variable("x")]), METH)
            self.add(ast.ClassDeclaration("G", [], ast.ClassDeclaration.REGULAR,
                                          fields=[ast.FieldDeclaration("x", t, is_final=False)], functions=[get],
                                          is_final=True, type_parameters=[t]))
        return self.top["G"]

    def G_of(self, t, infer=False):
        g = self.cls_G().get_type().new([t])
        if infer:
            g.can_infer_type_args = True
        return g

    def topvar(self, name, t, init, final=True):
        if name not in self.top:
            self.add(ast.VariableDeclaration(name, init, is_final=final, var_type=t))
        return name

    # -- result
    def build(self):
        ctx = Context()
        for d in self.top.values():
            register(ctx, G, d)
        return ast.Program(ctx, self.lang)


class Scope:
    """what a probe may ask of its surroundings"""

    def __init__(self, w, ctx_kind):
        self.w = w
        self.kind = ctx_kind
        self.pre = []           # statements placed before the probe's statement in the same block
        self.params = []        # parameters of the enclosing function-like
        self.fields = []        # fields of the enclosing class (method contexts only)
        self.in_class = ctx_kind in ("method", "method-expr", "nested-in-method", "lambda-in-method")
        self.object_param = None
        self.invalid = None     # set by a probe: reason why the member is not a valid target program

    def fresh(self, base):
        return "%s%d" % (base, next(self.w.ids))

    def local(self, t, init, final=True, base="v"):
        n = self.fresh(base)
        self.pre.append(ast.VariableDeclaration(n, init, is_final=final, var_type=t))
        return n

    def param(self, t, base="q", vararg=False):
        n = self.fresh(base)
        self.params.append(ast.ParameterDeclaration(n, t, vararg=vararg))
        return n

    def field(self, t, final=False):
        if not self.in_class:
            raise Skip("field of the enclosing class outside a method")
        n = self.fresh("fld")
        self.fields.append(ast.FieldDeclaration(n, t, is_final=final))
        return n


# ------------------------------------------------------------------------------------------ probes
class Probe:
    def __init__(self, name, fn, stmt=False, nullable=True, hint_ok=True, group="core", valid=True, fnval=False,
                 block_lambda=False):
        self.name, self.fn = name, fn
        self.stmt = stmt            # a statement-expression of a Java-like target (call, new, assignment)
        self.nullable = nullable    # `e == null` is well-typed
        self.hint_ok = hint_ok      # tu.get_type_hint answers the static type (needed where the translator prints it)
        self.group = group          # "core": full product with slots and contexts; "call": reduced product
        self.valid = valid          # False: well-formed IR that is not a valid target program by itself
        self.fnval = fnval          # a lambda / function reference (needs a functional-interface target type)
        self.block_lambda = block_lambda    # a lambda with a block body: no `;` is printed behind it under a block


PROBES = []


def probe(name, **kw):
    def deco(fn):
        PROBES.append(Probe(name, fn, **kw))
        return fn
    return deco


def _consts():
    for tn in ("Byte", "Short", "Int", "Long", "Number"):
        def f(S, tn=tn):
            t = getattr(S.w, tn)
            return ast.IntegerConstant(5, t), t
        PROBES.append(Probe("int:" + tn, f, nullable=False))
    for tn in ("Float", "Double", "Number"):
        def f(S, tn=tn):
            t = getattr(S.w, tn)
            return ast.RealConstant("1.5", t), t
        PROBES.append(Probe("real:" + tn, f, nullable=False))
    PROBES.append(Probe("bool", lambda S: (ast.BooleanConstant("true"), S.w.Bool), nullable=False))
    PROBES.append(Probe("char", lambda S: (ast.CharConstant("c"), S.w.Char), nullable=False))
    PROBES.append(Probe("string", lambda S: (ast.StringConstant("s"), S.w.String)))
    PROBES.append(Probe("bottom:typed", lambda S: (ast.BottomConstant(S.w.cls_A().get_type()), S.w.cls_A().get_type())))
    PROBES.append(Probe("bottom:builtin", lambda S: (ast.BottomConstant(S.w.String), S.w.String)))
    PROBES.append(Probe("bottom:param", lambda S: (ast.BottomConstant(S.w.G_of(S.w.String)), S.w.G_of(S.w.String))))
    PROBES.append(Probe("bottom:none", lambda S: (ast.BottomConstant(None), S.w.Any), hint_ok=False))
    PROBES.append(Probe("bottom:nothing", lambda S: (ast.BottomConstant(tp.Nothing), S.w.Any), hint_ok=False, valid=False))


_consts()


def _arrays():
    def elem(S, kind):
        w = S.w
        return {"Int": w.Int, "pInt": w.pInt, "String": w.String, "Number": w.Number, "A": None, "G": None}[kind] or (
            w.cls_A().get_type() if kind == "A" else w.G_of(w.String))

    def val(S, kind, i):
        w = S.w
        if kind in ("Int", "pInt"):
            return ast.IntegerConstant(i, w.pInt if kind == "pInt" else w.Int)
        if kind == "Number":
            return ast.IntegerConstant(i, w.Number) if i % 2 else ast.RealConstant("2.5", w.Number)
        if kind == "String":
            return ast.StringConstant("e%d" % i)
        if kind == "A":
            return w.new_A()
        return ast.New(w.G_of(w.String), [ast.StringConstant("g")])

    for kind in ("Int", "pInt", "String", "Number", "A", "G"):
        for n in (0, 1, 2):
            def f(S, kind=kind, n=n):
                if kind == "pInt" and S.w.pInt is None:
                    raise Skip("no primitive types")
                t = S.w.arr(elem(S, kind))
                return ast.ArrayExpr(t, n, [val(S, kind, i + 1) for i in range(n)]), t
            PROBES.append(Probe("array:%s:%d" % (kind, n), f, valid=kind != "pInt"))


_arrays()


@probe("var:local")
def _(S):
    return ast.Variable(S.local(S.w.Int, ast.IntegerConstant(1, S.w.Int))), S.w.Int


@probe("var:param")
def _(S):
    return ast.Variable(S.param(S.w.String)), S.w.String


@probe("var:top")
def _(S):
    return ast.Variable(S.w.topvar("tv", S.w.Int, ast.IntegerConstant(9, S.w.Int))), S.w.Int


@probe("var:top-shadowed")
def _(S):
    S.w.topvar("tv", S.w.Int, ast.IntegerConstant(9, S.w.Int))
    S.pre.append(ast.VariableDeclaration("tv", ast.IntegerConstant(8, S.w.Int), var_type=S.w.Int))
    return ast.Variable("tv"), S.w.Int


@probe("var:field")
def _(S):
    return ast.Variable(S.field(S.w.Int)), S.w.Int


@probe("var:fn-typed")
def _(S):
    w = S.w
    t = w.fn([w.Int], w.Int)
    n = S.local(t, ast.Lambda(w.lam_name(), [ast.ParameterDeclaration("k", w.Int)], w.Int, ast.Variable("k"), t))
    return ast.Variable(n), t


def _binops():
    def ints(S):
        return ast.IntegerConstant(1, S.w.Int), ast.IntegerConstant(2, S.w.Int)
    for op in ("&&", "||"):
        PROBES.append(Probe("binop:logical:" + op, lambda S, op=op: (ast.LogicalExpr(
            ast.BooleanConstant("true"), ast.BooleanConstant("false"), ast.Operator(op)), S.w.Bool), nullable=False))
    for op, neg in (("==", False), ("=", True)):
        PROBES.append(Probe("binop:equality:" + ("!=" if neg else "=="), lambda S, op=op, neg=neg: (ast.EqualityExpr(
            ast.StringConstant("a"), ast.Variable(S.param(S.w.String)), ast.Operator(op, is_not=neg)), S.w.Bool), nullable=False))
    for op in (">", ">=", "<", "<="):
        PROBES.append(Probe("binop:comparison:" + op, lambda S, op=op: (ast.ComparisonExpr(
            *ints(S), ast.Operator(op)), S.w.Bool), nullable=False))
    for op in ("+", "-", "*", "/"):
        PROBES.append(Probe("binop:arith:" + op, lambda S, op=op: (ast.ArithExpr(
            *ints(S), ast.Operator(op)), S.w.Int), nullable=False, hint_ok=False))
    PROBES.append(Probe("binop:comparison:real", lambda S: (ast.ComparisonExpr(
        ast.RealConstant("1.5", S.w.Double), ast.RealConstant("2.5", S.w.Float), ast.Operator(">")), S.w.Bool), nullable=False))
    PROBES.append(Probe("binop:nested", lambda S: (ast.LogicalExpr(
        ast.ComparisonExpr(ast.Variable(S.param(S.w.Int)), ast.IntegerConstant(2, S.w.Int), ast.Operator(">")),
        ast.EqualityExpr(ast.Variable(S.param(S.w.Any)), ast.BottomConstant(None), ast.Operator("==")),
        ast.Operator("&&")), S.w.Bool), nullable=False))


_binops()


def _conds():
    def plain(S):
        w = S.w
        return ast.Conditional(ast.BooleanConstant("true"), ast.StringConstant("t"), ast.StringConstant("f"), w.String), w.String
    PROBES.append(Probe("cond:plain", plain))

    def blocks(S):
        w = S.w
        tb = ast.Block([ast.VariableDeclaration("ct", ast.StringConstant("t"), var_type=w.String), ast.Variable("ct")], False)
        fb = ast.Block([ast.StringConstant("f")], False)
        return ast.Conditional(ast.Variable(S.param(w.Bool)), tb, fb, w.String), w.String
    PROBES.append(Probe("cond:blocks", blocks))

    for neg in (False, True):
        for use in ("var", "field", "call", "none", "nested-is"):
            def f(S, neg=neg, use=use):
                w = S.w
                a, b = w.cls_A().get_type(), w.cls_B().get_type()
                o = S.param(a, base="o")
                cast = {"var": (ast.Variable(o), b), "field": (ast.FieldAccess(ast.Variable(o), "a"), w.String),
                        "call": (ast.FunctionCall("mb", [], receiver=ast.Variable(o)), w.Int),
                        "none": (ast.BottomConstant(b), b)}
                if use == "nested-is":
                    # the smart-cast variable tested again inside the smart-cast branch (name gets a second suffix)
                    inner = ast.Conditional(ast.Is(ast.Variable(o), b), ast.Variable(o), ast.BottomConstant(b), b)
                    e, t = inner, b
                else:
                    e, t = cast[use]
                other = ast.BottomConstant(t) if t not in (w.String, w.Int) else w.default(t)
                if neg:
                    return ast.Conditional(ast.Is(ast.Variable(o), b, True), other, e, t), t
                return ast.Conditional(ast.Is(ast.Variable(o), b), e, other, t), t
            # not valid Java: the negated test does not rename in the false branch; a renamed variable tested again
            PROBES.append(Probe("cond:is%s:%s" % ("-not" if neg else "", use), f, nullable=use != "call",
                                valid=(use == "none") or (not neg and use != "nested-is")))

    def is_expr(S):
        w = S.w
        a, b = w.cls_A().get_type(), w.cls_B().get_type()
        return ast.Conditional(ast.Is(w.new_A(), b), ast.StringConstant("t"), ast.StringConstant("f"), w.String), w.String
    PROBES.append(Probe("cond:is:lexpr-not-variable", is_expr))

    def is_top(S):
        w = S.w
        a, b = w.cls_A().get_type(), w.cls_B().get_type()
        w.topvar("ta", a, w.new_A())
        return ast.Conditional(ast.Is(ast.Variable("ta"), b), ast.FunctionCall("mb", [], receiver=ast.Variable("ta")),
                               ast.IntegerConstant(0, w.Int), w.Int), w.Int
    PROBES.append(Probe("cond:is:top-level-variable", is_top, nullable=False))


_conds()


def _news():
    PROBES.append(Probe("new:plain", lambda S: (S.w.new_A(), S.w.cls_A().get_type()), stmt=True))
    PROBES.append(Probe("new:noargs", lambda S: (
        ast.New(S.w.add_once_empty().get_type(), []), S.w.add_once_empty().get_type()), stmt=True))
    PROBES.append(Probe("new:targs", lambda S: (
        ast.New(S.w.G_of(S.w.String), [ast.StringConstant("g")]), S.w.G_of(S.w.String)), stmt=True))
    PROBES.append(Probe("new:diamond", lambda S: (
        ast.New(S.w.G_of(S.w.String, infer=True), [ast.StringConstant("g")]), S.w.G_of(S.w.String)), stmt=True))
    PROBES.append(Probe("new:nested-targs", lambda S: (
        ast.New(S.w.G_of(S.w.G_of(S.w.Int)), [ast.New(S.w.G_of(S.w.Int), [ast.IntegerConstant(1, S.w.Int)])]),
        S.w.G_of(S.w.G_of(S.w.Int))), stmt=True))
    PROBES.append(Probe("new:number-arg", lambda S: (
        ast.New(S.w.G_of(S.w.Number), [ast.IntegerConstant(4, S.w.Number)]), S.w.G_of(S.w.Number)), stmt=True))


def _add_once_empty(self):
    if "E" not in self.top:
        self.add(ast.ClassDeclaration("E", [], ast.ClassDeclaration.REGULAR, fields=[], functions=[], is_final=True))
    return self.top["E"]


World.add_once_empty = _add_once_empty
_news()


def _fields():
    def recv(S, kind):
        w = S.w
        if kind == "var":
            return ast.Variable(S.local(w.cls_A().get_type(), w.new_A()))
        if kind == "new":
            return w.new_A()
        if kind == "bottom":
            return ast.BottomConstant(w.cls_A().get_type())
        if kind == "call":
            w.func("mkA", [], w.cls_A().get_type(), ast.Block([w.new_A()]))
            return ast.FunctionCall("mkA", [])
        if kind == "chain":
            b = w.box(w.cls_A().get_type())
            return ast.FieldAccess(ast.Variable(S.local(b.get_type(), ast.New(b.get_type(), [w.new_A()]))), "f")
        raise KeyError(kind)
    for kind in ("var", "new", "bottom", "call", "chain"):
        PROBES.append(Probe("fieldaccess:" + kind, lambda S, kind=kind: (ast.FieldAccess(recv(S, kind), "a"), S.w.String)))
        PROBES.append(Probe("assign:field:" + kind, lambda S, kind=kind: (
            ast.Assignment("n", ast.IntegerConstant(6, S.w.Int), receiver=recv(S, kind)), S.w.Void),
            stmt=True, valid=kind != "new" or True))
    PROBES.append(Probe("fieldaccess:generic", lambda S: (ast.FieldAccess(
        ast.Variable(S.local(S.w.G_of(S.w.String), ast.New(S.w.G_of(S.w.String), [ast.StringConstant("g")]))), "x"), S.w.String)))
    PROBES.append(Probe("assign:local", lambda S: (ast.Assignment(
        S.local(S.w.Long, ast.IntegerConstant(1, S.w.Long), final=False), ast.IntegerConstant(2, S.w.Long)), S.w.Void), stmt=True))
    PROBES.append(Probe("assign:top", lambda S: (ast.Assignment(
        S.w.topvar("tw", S.w.Number, ast.IntegerConstant(1, S.w.Number), final=False), ast.RealConstant("3.5", S.w.Number)),
        S.w.Void), stmt=True))
    PROBES.append(Probe("assign:this-field", lambda S: (ast.Assignment(
        S.field(S.w.Short), ast.IntegerConstant(2, S.w.Short)), S.w.Void), stmt=True))
    PROBES.append(Probe("assign:param-of-fn-type", lambda S: (ast.Assignment(
        S.local(S.w.fn([], S.w.Int), ast.Lambda(S.w.lam_name(), [], S.w.Int, ast.IntegerConstant(1, S.w.Int), S.w.fn([], S.w.Int)),
                final=False),
        ast.Lambda(S.w.lam_name(), [], S.w.Int, ast.IntegerConstant(2, S.w.Int), S.w.fn([], S.w.Int))), S.w.Void), stmt=True))


_fields()


def _lambdas():
    def mk(S, nparams, ret, body_kind):
        w = S.w
        ps = [ast.ParameterDeclaration("l%d" % i, w.Int) for i in range(nparams)]
        rt = {"Int": w.Int, "Void": w.Void, "Number": w.Number}[ret]
        if ret == "Void":
            val = w.nop()
        elif ret == "Number":
            val = ast.IntegerConstant(3, w.Number)
        else:
            val = ast.Variable("l0") if nparams else ast.IntegerConstant(3, w.Int)
        if body_kind == "expr":
            body = val
        elif body_kind == "block":
            body = ast.Block([val])
        elif body_kind == "block2":
            body = ast.Block([ast.VariableDeclaration("lv", ast.StringConstant("s"), var_type=w.String), val])
        else:
            body = ast.Block([])
        sig = w.fn([w.Int] * nparams, rt)
        if ret == "Void":
            S.invalid = "a void lambda returns nothing (Function<.., Void> needs `return null`)"
        return ast.Lambda(w.lam_name(), ps, rt, body, sig), sig
    for nparams in (0, 1, 2):
        for ret in ("Int", "Void", "Number"):
            for body_kind in ("expr", "block", "block2") + (("empty",) if ret == "Void" else ()):
                PROBES.append(Probe("lambda:%d:%s:%s" % (nparams, ret, body_kind),
                                    lambda S, a=nparams, b=ret, c=body_kind: mk(S, a, b, c), nullable=False, fnval=True,
                                    block_lambda=body_kind != "expr"))

    def returning_lambda(S):
        w = S.w
        inner_sig = w.fn([], w.Int)
        inner = ast.Lambda(w.lam_name(), [], w.Int, ast.IntegerConstant(1, w.Int), inner_sig)
        sig = w.fn([], inner_sig)
        return ast.Lambda(w.lam_name(), [], inner_sig, inner, sig), sig
    PROBES.append(Probe("lambda:returns-lambda", returning_lambda, nullable=False, fnval=True))


_lambdas()


def _funcrefs():
    def top(S):
        w = S.w
        w.func("tf1", [ast.ParameterDeclaration("p", w.Int)], w.String, ast.Block([ast.StringConstant("r")]))
        return ast.FunctionReference("tf1", None, w.fn([w.Int], w.String)), w.fn([w.Int], w.String)
    PROBES.append(Probe("funcref:top", top, nullable=False, fnval=True))

    def recv(S, kind):
        w = S.w
        r = {"var": lambda: ast.Variable(S.local(w.cls_A().get_type(), w.new_A())), "new": w.new_A,
             "bottom": lambda: ast.BottomConstant(w.cls_A().get_type()),
             "bottom-none": lambda: ast.BottomConstant(None)}[kind]()
        return ast.FunctionReference("ma", r, w.fn([], w.String)), w.fn([], w.String)
    for kind in ("var", "new", "bottom"):
        PROBES.append(Probe("funcref:recv:" + kind, lambda S, kind=kind: recv(S, kind), nullable=False, fnval=True))

    def this_method(S):
        w = S.w
        if not S.in_class:
            raise Skip("method of this outside a class")
        S.methods = getattr(S, "methods", []) + [ast.FunctionDeclaration(
            "hm", [ast.ParameterDeclaration("p", w.Int)], w.Int, ast.Block([ast.Variable("p")]), METH)]
        return ast.FunctionReference("hm", None, w.fn([w.Int], w.Int)), w.fn([w.Int], w.Int)
    PROBES.append(Probe("funcref:this-method", this_method, nullable=False, fnval=True))

    def local_fn_var(S):
        w = S.w
        t = w.fn([], w.Int)
        n = S.local(t, ast.Lambda(w.lam_name(), [], w.Int, ast.IntegerConstant(1, w.Int), t))
        return ast.FunctionReference(n, None, t), t
    PROBES.append(Probe("funcref:fn-variable", local_fn_var, nullable=False, fnval=True))

    def top_fn_var(S):
        w = S.w
        t = w.fn([], w.Int)
        w.topvar("tfv", t, ast.Lambda(w.lam_name(), [], w.Int, ast.IntegerConstant(1, w.Int), t))
        return ast.FunctionReference("tfv", None, t), t
    # printed without `Main.`: not a valid target
    PROBES.append(Probe("funcref:top-level-fn-variable", top_fn_var, nullable=False, fnval=True, valid=False))

    def nested(S):
        w = S.w
        S.pre.append(ast.FunctionDeclaration("nfr", [ast.ParameterDeclaration("p", w.Int)], w.Int,
                                             ast.Block([ast.Variable("p")]), FUNC))
        return ast.FunctionReference("nfr", None, w.fn([w.Int], w.Int)), w.fn([w.Int], w.Int)
    PROBES.append(Probe("funcref:nested-function", nested, nullable=False, fnval=True))


_funcrefs()


# ---- calls: callee kind x fixed parameters x vararg element x number of vararg values x return
CALLEES = ("top", "method-var", "method-new", "method-bottom", "this-method", "nested", "nested-expr-body", "generic-top")
VARARGS = (None, "Int", "pInt", "String", "G")
FN_CALLEES = ("fn-local", "fn-param", "fn-top", "fn-field", "fn-this-field", "fn-funcref")


def _vt(S, v):
    w = S.w
    if v == "pInt" and w.pInt is None:
        raise Skip("no primitive types")
    return {"Int": w.Int, "pInt": w.pInt, "String": w.String}.get(v) or w.G_of(w.String)


def _vval(S, v, i):
    w = S.w
    if v in ("Int", "pInt"):
        return ast.IntegerConstant(10 + i, w.pInt if v == "pInt" else w.Int)
    if v == "String":
        return ast.StringConstant("v%d" % i)
    return ast.New(w.G_of(w.String), [ast.StringConstant("g%d" % i)])


def _call(S, callee, nfixed, v, nvals, ret):
    w = S.w
    name = "c%s%d%s" % (callee.replace("-", "")[:3], nfixed, (v or "n"))
    name = name.lower() + ("r" if ret != "Void" else "v")
    rt = w.Void if ret == "Void" else w.Long
    tparams = []
    ptypes = [w.Long, w.String][:nfixed]
    if callee == "generic-top":
        t = tp.TypeParameter("T", bound=w.Number if nfixed else None)
        tparams = [t]
        ptypes = [t] + ptypes[1:] if nfixed else ptypes
        if ret != "Void" and nfixed:
            rt = t
    params = [ast.ParameterDeclaration("a%d" % i, t) for i, t in enumerate(ptypes)]
    if v:
        params.append(ast.ParameterDeclaration("va", w.arr(_vt(S, v)), vararg=True))
    if ret == "Void":
        body = ast.Block([])
    elif rt in tparams:
        body = ast.Block([ast.Variable("a0")])
    else:
        body = ast.Block([ast.IntegerConstant(1, w.Long)])
    if callee == "nested-expr-body" and ret == "Void":
        S.invalid = "a void nested function with an expression body returns nothing"
    if callee in ("nested", "nested-expr-body") and v == "pInt":
        S.invalid = "the array built for a primitive vararg of a nested function is boxed"
    if callee == "nested-expr-body":
        body = w.nop() if ret == "Void" else (ast.Variable("a0") if rt in tparams else ast.IntegerConstant(1, w.Long))
    kw = {"type_parameters": tparams} if tparams else {}
    fixed_args = [ast.IntegerConstant(21, w.Long), ast.StringConstant("fx")][:nfixed]
    args = [ast.CallArgument(e) for e in fixed_args + [_vval(S, v, i) for i in range(nvals)]]
    targs = [w.Long] if tparams else []
    res_t = w.Long if (tparams and rt in tparams) else rt
    if callee in ("top", "generic-top"):
        w.func(name, params, rt, body, **kw)
        return ast.FunctionCall(name, args, type_args=targs), res_t
    if callee in ("nested", "nested-expr-body"):
        S.pre.append(ast.FunctionDeclaration(name, params, rt, body, FUNC))
        return ast.FunctionCall(name, args), res_t
    if callee == "this-method":
        if not S.in_class:
            raise Skip("method of this outside a class")
        S.methods = getattr(S, "methods", []) + [ast.FunctionDeclaration(name, params, rt, body, METH)]
        return ast.FunctionCall(name, args), res_t
    # method of class C<name> with a receiver
    cn = "C" + name
    if cn not in w.top:
        w.add(ast.ClassDeclaration(cn, [], ast.ClassDeclaration.REGULAR, fields=[],
                                   functions=[ast.FunctionDeclaration(name, params, rt, body, METH)], is_final=True))
    ct = w.top[cn].get_type()
    r = {"method-var": lambda: ast.Variable(S.local(ct, ast.New(ct, []))), "method-new": lambda: ast.New(ct, []),
         "method-bottom": lambda: ast.BottomConstant(ct)}[callee]()
    return ast.FunctionCall(name, args, receiver=r), res_t


def _calls():
    for callee in CALLEES:
        for nfixed in (0, 1):
            for v in VARARGS:
                for nvals in ((0, 1, 2) if v else (0,)):
                    for ret in ("Void", "Long"):
                        if callee == "generic-top" and v not in (None, "Int"):
                            continue
                        PROBES.append(Probe(
                            "call:%s:fixed%d:vararg-%s:%d:%s" % (callee, nfixed, v or "none", nvals, ret),
                            lambda S, a=callee, b=nfixed, c=v, d=nvals, e=ret: _call(S, a, b, c, d, e),
                            stmt=True, nullable=False, group="call", hint_ok=callee != "generic-top"))

    def fn_call(S, kind, nargs, ret):
        w = S.w
        rt = w.Void if ret == "Void" else w.Int
        sig = w.fn([w.Int] * nargs, rt)
        ps = [ast.ParameterDeclaration("k%d" % i, w.Int) for i in range(nargs)]
        lam = ast.Lambda(w.lam_name(), ps, rt, w.nop() if ret == "Void" else ast.IntegerConstant(1, w.Int), sig)
        args = [ast.CallArgument(ast.IntegerConstant(30 + i, w.Int)) for i in range(nargs)]
        recv = None
        if ret == "Void" and kind in ("fn-local", "fn-top", "fn-field", "fn-funcref"):
            S.invalid = "a void lambda / a reference to a void function is not a Function<.., Void>"
        if kind == "fn-local":
            n = S.local(sig, lam)
        elif kind == "fn-param":
            n = S.param(sig, base="fp")
        elif kind == "fn-top":
            n = w.topvar("tfn%d%s" % (nargs, ret[0]), sig, lam)
        elif kind == "fn-this-field":
            n = S.field(sig, final=True)
        elif kind == "fn-field":
            b = w.box(sig)
            n = "f"
            recv = ast.Variable(S.local(b.get_type(), ast.New(b.get_type(), [lam])))
        else:
            w.func("rf%d%s" % (nargs, ret[0]), ps, rt, ast.Block([] if ret == "Void" else [ast.IntegerConstant(1, w.Int)]))
            n = S.local(sig, ast.FunctionReference("rf%d%s" % (nargs, ret[0]), None, sig))
        return ast.FunctionCall(n, args, receiver=recv, is_ref_call=True), rt
    for kind in FN_CALLEES:
        for nargs in (0, 1, 2):
            for ret in ("Void", "Int"):
                PROBES.append(Probe("call:%s:%d:%s" % (kind, nargs, ret),
                                    lambda S, a=kind, b=nargs, c=ret: fn_call(S, a, b, c),
                                    stmt=True, nullable=False, group="fncall", hint_ok=False))

    def four(S):
        w = S.w
        ps = [ast.ParameterDeclaration("a%d" % i, w.Int) for i in range(4)]
        S.pre.append(ast.FunctionDeclaration("nf4", ps, w.Int, ast.Block([ast.Variable("a3")]), FUNC))
        return ast.FunctionCall("nf4", [ast.CallArgument(ast.IntegerConstant(i, w.Int)) for i in range(4)]), w.Int
    PROBES.append(Probe("call:nested:four-params", four, stmt=True, nullable=False))

    def named_default(S):
        w = S.w
        w.func("dflt", [ast.ParameterDeclaration("a", w.Int), ast.ParameterDeclaration("b", w.Int)], w.Int,
               ast.Block([ast.Variable("a")]))
        return ast.FunctionCall("dflt", [ast.CallArgument(ast.IntegerConstant(1, w.Int)),
                                         ast.CallArgument(ast.IntegerConstant(2, w.Int), name=None)]), w.Int
    PROBES.append(Probe("call:top:two-args", named_default, stmt=True, nullable=False))

    def chain(S):
        w = S.w
        g = w.G_of(w.cls_A().get_type())
        n = S.local(g, ast.New(g, [w.new_A()]))
        return ast.FunctionCall("ma", [], receiver=ast.FunctionCall("get", [], receiver=ast.Variable(n))), w.String
    PROBES.append(Probe("call:chain-generic", chain, stmt=True))

    def arg_kinds(S):
        w = S.w
        w.func("many", [ast.ParameterDeclaration("a", w.Number), ast.ParameterDeclaration("b", w.fn([], w.Int)),
                        ast.ParameterDeclaration("c", w.arr(w.Int)), ast.ParameterDeclaration("d", w.Any)], w.Void, ast.Block([]))
        return ast.FunctionCall("many", [
            ast.CallArgument(ast.RealConstant("0.5", w.Number)),
            ast.CallArgument(ast.Lambda(w.lam_name(), [], w.Int, ast.IntegerConstant(1, w.Int), w.fn([], w.Int))),
            ast.CallArgument(ast.ArrayExpr(w.arr(w.Int), 1, [ast.IntegerConstant(1, w.Int)])),
            ast.CallArgument(ast.Block([ast.StringConstant("blk")], False))]), w.Void
    PROBES.append(Probe("call:top:argument-kinds", arg_kinds, stmt=True, nullable=False))


_calls()


# ------------------------------------------------------------------------------------------ slots
# slot(S, e, t, P) -> (statements, type the enclosing function returns, valid_target)
def _is_void(S, t):
    return t == S.w.Void


def slot_ret(S, e, t, P):
    if _is_void(S, t):
        raise Skip("void value returned")
    return [e], t, not P.block_lambda


def slot_last_void(S, e, t, P):
    return [e], S.w.Void, True


def slot_stmt(S, e, t, P):
    return [e, S.w.nop()], S.w.Void, P.stmt


def slot_init(S, e, t, P):
    if _is_void(S, t):
        raise Skip("void initialiser")
    return [ast.VariableDeclaration(S.fresh("iv"), e, var_type=t)], S.w.Void, True


def slot_init_nonfinal_then_stmt(S, e, t, P):
    if _is_void(S, t):
        raise Skip("void initialiser")
    return [ast.VariableDeclaration(S.fresh("iv"), e, is_final=False, var_type=t), S.w.nop()], S.w.Void, True


def slot_arg(S, e, t, P):
    if _is_void(S, t):
        raise Skip("void argument")
    return [ast.FunctionCall(S.w.sink(t), [ast.CallArgument(e)])], S.w.Void, True


def slot_arg_ret(S, e, t, P):
    if _is_void(S, t):
        raise Skip("void argument")
    return [ast.FunctionCall(S.w.ident(t), [ast.CallArgument(e)])], t, True


def slot_vararg_value(S, e, t, P):
    if _is_void(S, t):
        raise Skip("void argument")
    return [ast.FunctionCall(S.w.sinkv(t), [ast.CallArgument(e), ast.CallArgument(S.w.default(t))])], S.w.Void, True


def slot_new_arg(S, e, t, P):
    if _is_void(S, t):
        raise Skip("void argument")
    b = S.w.box(t).get_type()
    return [ast.New(b, [e])], b, True


def slot_assign_local(S, e, t, P):
    if _is_void(S, t):
        raise Skip("void value")
    n = S.local(t, S.w.default(t), final=False, base="al")
    return [ast.Assignment(n, e)], S.w.Void, True


def slot_assign_this_field(S, e, t, P):
    if _is_void(S, t):
        raise Skip("void value")
    return [ast.Assignment(S.field(t), e)], S.w.Void, True


def slot_assign_recv_field(S, e, t, P):
    if _is_void(S, t):
        raise Skip("void value")
    b = S.w.box(t).get_type()
    n = S.local(b, ast.New(b, [S.w.default(t)]), base="bx")
    return [ast.Assignment("f", e, receiver=ast.Variable(n)), S.w.nop()], S.w.Void, True


def slot_array_elem(S, e, t, P):
    if _is_void(S, t):
        raise Skip("void element")
    at = S.w.arr(t)
    return [ast.ArrayExpr(at, 2, [e, S.w.default(t)])], at, not P.fnval


def slot_eq_null(S, e, t, P):
    if _is_void(S, t) or not P.nullable:
        raise Skip("not comparable with null")
    return [ast.EqualityExpr(e, ast.BottomConstant(None), ast.Operator("=="))], S.w.Bool, True


def _cond(S, c, e, t, first):
    o = S.w.default(t)
    return ast.Conditional(c, e, o, t) if first else ast.Conditional(c, o, e, t)


def slot_cond_true(S, e, t, P):
    if _is_void(S, t):
        raise Skip("void branch")
    return [_cond(S, ast.Variable(S.param(S.w.Bool, base="cb")), e, t, True)], t, True


def slot_cond_false(S, e, t, P):
    if _is_void(S, t):
        raise Skip("void branch")
    return [_cond(S, ast.Variable(S.param(S.w.Bool, base="cb")), e, t, False)], t, True


def _is_of(S):
    w = S.w
    return ast.Is(ast.Variable(S.param(w.cls_A().get_type(), base="io")), w.cls_B().get_type())


def slot_is_true(S, e, t, P):
    if _is_void(S, t):
        raise Skip("void branch")
    return [_cond(S, _is_of(S), e, t, True)], t, True


def slot_is_false(S, e, t, P):
    if _is_void(S, t):
        raise Skip("void branch")
    return [_cond(S, _is_of(S), e, t, False)], t, True


def slot_block_expr(S, e, t, P):
    """last statement of a block used as an expression (Java: a Function0 lambda called in place)"""
    if _is_void(S, t):
        return [ast.VariableDeclaration(S.fresh("bv"), ast.Block([e], False), var_type=S.w.Any)], S.w.Void, False
    return [ast.VariableDeclaration(S.fresh("bv"), ast.Block([e], False), var_type=t)], S.w.Void, P.hint_ok and not P.block_lambda


def slot_block_expr2(S, e, t, P):
    """… preceded by a declaration inside the block"""
    if _is_void(S, t):
        raise Skip("void value")
    blk = ast.Block([ast.VariableDeclaration(S.fresh("bi"), ast.StringConstant("in"), var_type=S.w.String), e], False)
    return [ast.VariableDeclaration(S.fresh("bv"), blk, var_type=t)], S.w.Void, P.hint_ok and not P.block_lambda


def slot_lambda_expr_body(S, e, t, P):
    sig = S.w.fn([], t)
    return [ast.VariableDeclaration(S.fresh("lb"), ast.Lambda(S.w.lam_name(), [], t, e, sig), var_type=sig)], S.w.Void, \
        not _is_void(S, t)


def slot_lambda_block_body(S, e, t, P):
    sig = S.w.fn([], t)
    return [ast.VariableDeclaration(S.fresh("lb"), ast.Lambda(S.w.lam_name(), [], t, ast.Block([e]), sig), var_type=sig)], \
        S.w.Void, not _is_void(S, t) and not P.block_lambda


def slot_nested_expr_body(S, e, t, P):
    return [ast.FunctionDeclaration(S.fresh("ne"), [], t, e, FUNC), S.w.nop()], S.w.Void, not _is_void(S, t)


def slot_nested_block_body(S, e, t, P):
    return [ast.FunctionDeclaration(S.fresh("nb"), [], t, ast.Block([e]), FUNC), S.w.nop()], S.w.Void, not P.block_lambda


SLOTS = OrderedDict([
    ("ret", slot_ret), ("last-void", slot_last_void), ("stmt", slot_stmt), ("init", slot_init),
    ("init-nonfinal", slot_init_nonfinal_then_stmt), ("arg", slot_arg), ("arg-ret", slot_arg_ret),
    ("vararg-value", slot_vararg_value), ("new-arg", slot_new_arg), ("assign-local", slot_assign_local),
    ("assign-this-field", slot_assign_this_field), ("assign-recv-field", slot_assign_recv_field),
    ("array-elem", slot_array_elem), ("eq-null", slot_eq_null), ("cond-true", slot_cond_true),
    ("cond-false", slot_cond_false), ("is-true", slot_is_true), ("is-false", slot_is_false),
    ("block-expr", slot_block_expr), ("block-expr2", slot_block_expr2), ("lambda-expr-body", slot_lambda_expr_body),
    ("lambda-block-body", slot_lambda_block_body), ("nested-expr-body", slot_nested_expr_body),
    ("nested-block-body", slot_nested_block_body),
])
CALL_SLOTS = ("ret", "last-void", "stmt", "arg", "is-true", "block-expr", "lambda-expr-body")


# ------------------------------------------------------------------------------------------ contexts
def _single_expr(S, body, ret):
    if len(body) != 1 or isinstance(body[0], ast.Declaration):
        raise Skip("an expression body holds one expression")
    ok = True
    if ret == S.w.Void:
        ok = isinstance(body[0], (ast.FunctionCall, ast.Assignment, ast.New))
    return body[0], ok


def _host(S, funcs):
    S.w.add(ast.ClassDeclaration("Host", [], ast.ClassDeclaration.REGULAR, fields=list(S.fields),
                                 functions=funcs + list(getattr(S, "methods", [])), is_final=True))


def _outer(S, stmts, params=()):
    return ast.FunctionDeclaration("outer", list(params), S.w.Void, ast.Block(stmts), FUNC)


def _lam(S, body, ret, params):
    sig = S.w.fn([p.param_type for p in params], ret)
    return ast.Lambda(S.w.lam_name(), list(params), ret, body, sig), sig


def ctx_topfunc(S, body, ret):
    S.w.add(ast.FunctionDeclaration("test", S.params, ret, ast.Block(body), FUNC))
    return True


def ctx_topfunc_expr(S, body, ret):
    e, ok = _single_expr(S, body, ret)
    S.w.add(ast.FunctionDeclaration("test", S.params, ret, e, FUNC))
    return ok


def ctx_main(S, body, ret):
    if ret != S.w.Void:
        raise Skip("main returns nothing")
    S.w.add(ast.FunctionDeclaration("main", S.params, ret, ast.Block(body), FUNC))
    return True


def ctx_method(S, body, ret):
    _host(S, [ast.FunctionDeclaration("test", S.params, ret, ast.Block(body), METH)])
    return True


def ctx_method_expr(S, body, ret):
    e, ok = _single_expr(S, body, ret)
    _host(S, [ast.FunctionDeclaration("test", S.params, ret, e, METH)])
    return ok


def _nested(S, body, ret):
    return ast.FunctionDeclaration("test", S.params, ret, ast.Block(body), FUNC)


def ctx_nested(S, body, ret):
    S.w.add(_outer(S, [_nested(S, body, ret), S.w.nop()]))
    return True


def ctx_nested_expr(S, body, ret):
    e, ok = _single_expr(S, body, ret)
    S.w.add(_outer(S, [ast.FunctionDeclaration("test", S.params, ret, e, FUNC), S.w.nop()]))
    return ok and ret != S.w.Void


def ctx_nested_in_method(S, body, ret):
    _host(S, [ast.FunctionDeclaration("outer", [], S.w.Void, ast.Block([_nested(S, body, ret), S.w.nop()]), METH)])
    return True


def ctx_nested_in_nested(S, body, ret):
    mid = ast.FunctionDeclaration("mid", [], S.w.Void, ast.Block([_nested(S, body, ret), S.w.nop()]), FUNC)
    S.w.add(_outer(S, [mid, S.w.nop()]))
    return True


def ctx_nested_in_lambda(S, body, ret):
    lam, sig = _lam(S, ast.Block([_nested(S, body, ret), ast.IntegerConstant(0, S.w.Int)]), S.w.Int, [])
    S.w.add(_outer(S, [ast.VariableDeclaration("lam", lam, var_type=sig), S.w.nop()]))
    return True


def ctx_lambda_block(S, body, ret):
    lam, sig = _lam(S, ast.Block(body), ret, S.params)
    S.w.add(_outer(S, [ast.VariableDeclaration("lam", lam, var_type=sig), S.w.nop()]))
    return ret != S.w.Void


def ctx_lambda_expr(S, body, ret):
    e, ok = _single_expr(S, body, ret)
    lam, sig = _lam(S, e, ret, S.params)
    S.w.add(_outer(S, [ast.VariableDeclaration("lam", lam, var_type=sig), S.w.nop()]))
    return ok and ret != S.w.Void


def ctx_lambda_top(S, body, ret):
    lam, sig = _lam(S, ast.Block(body), ret, S.params)
    S.w.add(ast.VariableDeclaration("lam", lam, var_type=sig))
    return ret != S.w.Void


def ctx_lambda_in_method(S, body, ret):
    lam, sig = _lam(S, ast.Block(body), ret, S.params)
    _host(S, [ast.FunctionDeclaration("outer", [], S.w.Void, ast.Block(
        [ast.VariableDeclaration("lam", lam, var_type=sig), S.w.nop()]), METH)])
    return ret != S.w.Void


def _is_host(S, blk, ret, first, is_not=False):
    w = S.w
    if ret == w.Void:
        raise Skip("a branch of a conditional has a value")
    o = ast.ParameterDeclaration("ob", w.cls_A().get_type())
    c = ast.Is(ast.Variable("ob"), w.cls_B().get_type(), is_not)
    other = w.default(ret)
    cond = ast.Conditional(c, blk, other, ret) if first else ast.Conditional(c, other, blk, ret)
    w.add(_outer(S, [ast.VariableDeclaration("res", cond, var_type=ret), w.nop()], [o] + S.params))
    return True


def ctx_true_block(S, body, ret):
    return _is_host(S, ast.Block(body, False), ret, True)


def ctx_false_block(S, body, ret):
    return _is_host(S, ast.Block(body, False), ret, False)


def ctx_true_block_of_is_not(S, body, ret):
    return _is_host(S, ast.Block(body, False), ret, True, is_not=True)


def ctx_nested_in_true_block(S, body, ret):
    if S.params:
        raise Skip("the nested function is called without arguments")
    if ret == S.w.Void:
        raise Skip("a branch of a conditional has a value")
    return _is_host(S, ast.Block([_nested(S, body, ret), ast.FunctionCall("test", [])], False), ret, True)


def ctx_lambda_in_false_block(S, body, ret):
    if ret == S.w.Void:
        raise Skip("a branch of a conditional has a value")
    lam, sig = _lam(S, ast.Block(body), ret, [])
    if S.params:
        raise Skip("the lambda is called without arguments")
    blk = ast.Block([ast.VariableDeclaration("lam", lam, var_type=sig), ast.FunctionCall("lam", [], is_ref_call=True)], False)
    _is_host(S, blk, ret, False)
    return False    # the type hint of `lam()` is the function type: Function0<Function0<..>> is printed for the block


def ctx_topvar(S, body, ret):
    if S.pre or S.params or len(body) != 1 or not isinstance(body[0], ast.VariableDeclaration):
        raise Skip("a top-level variable has an initialiser only")
    S.w.add(body[0])
    return True


def ctx_super_arg(S, body, ret):
    if S.pre or S.params or len(body) != 1 or isinstance(body[0], ast.Declaration) or ret == S.w.Void:
        raise Skip("a super-constructor argument is one expression")
    w = S.w
    base = w.add(ast.ClassDeclaration("SBase", [], ast.ClassDeclaration.REGULAR,
                                      fields=[ast.FieldDeclaration("s", ret, is_final=True)], functions=[], is_final=False))
    w.add(ast.ClassDeclaration("SSub", [ast.SuperClassInstantiation(base.get_type(), [body[0]])],
                               ast.ClassDeclaration.REGULAR, fields=[], functions=[], is_final=True))
    return True


CONTEXTS = OrderedDict([
    ("topfunc", ctx_topfunc), ("topfunc-expr", ctx_topfunc_expr), ("main", ctx_main), ("method", ctx_method),
    ("method-expr", ctx_method_expr), ("nested", ctx_nested), ("nested-expr", ctx_nested_expr),
    ("nested-in-method", ctx_nested_in_method), ("nested-in-nested", ctx_nested_in_nested),
    ("nested-in-lambda", ctx_nested_in_lambda), ("lambda-block", ctx_lambda_block), ("lambda-expr", ctx_lambda_expr),
    ("lambda-top", ctx_lambda_top), ("lambda-in-method", ctx_lambda_in_method), ("true-block", ctx_true_block),
    ("false-block", ctx_false_block), ("true-block-of-is-not", ctx_true_block_of_is_not),
    ("nested-in-true-block", ctx_nested_in_true_block), ("lambda-in-false-block", ctx_lambda_in_false_block),
    ("topvar", ctx_topvar), ("super-arg", ctx_super_arg),
])
CALL_CONTEXTS = ("topfunc", "method", "nested", "nested-in-method", "lambda-block", "true-block", "nested-in-true-block",
                 "topfunc-expr")


# ------------------------------------------------------------------------------------------ declaration shapes
DECLS = OrderedDict()


def decl(name):
    def deco(fn):
        DECLS[name] = fn
        return fn
    return deco


def _class_shapes():
    R, I, A = ast.ClassDeclaration.REGULAR, ast.ClassDeclaration.INTERFACE, ast.ClassDeclaration.ABSTRACT

    def mk(w, ctype, nfields, funcs, sup, tps, final):
        tparams = {"none": [], "T": [tp.TypeParameter("T")], "bounded": [tp.TypeParameter("T", bound=w.Number)],
                   "two": [tp.TypeParameter("X"), tp.TypeParameter("Y", bound=w.Any)]}[tps]
        ftypes = [tparams[0] if tparams else w.String, w.Int]
        fields = [ast.FieldDeclaration("f%d" % i, ftypes[i], is_final=(i == 0)) for i in range(nfields)]
        fs = []
        if funcs in ("concrete", "both"):
            fs.append(ast.FunctionDeclaration("cm", [ast.ParameterDeclaration("p", w.Int)], w.Int,
                                              ast.Block([ast.Variable("p")]), METH, is_final=final))
            fs.append(ast.FunctionDeclaration("ce", [], w.String, ast.StringConstant("e"), METH, is_final=False))
        if funcs in ("abstract", "both"):
            fs.append(ast.FunctionDeclaration("am", [ast.ParameterDeclaration("p", w.String)], w.Void, None, METH, is_final=False))
        supers = []
        if sup in ("regular", "regular+iface"):
            b = w.add(ast.ClassDeclaration("Base", [], R, fields=[ast.FieldDeclaration("b", w.Number, is_final=True)],
                                           functions=[], is_final=False))
            supers.append(ast.SuperClassInstantiation(b.get_type(), [ast.IntegerConstant(1, w.Number)]))
        if sup == "regular-noargs":
            b = w.add(ast.ClassDeclaration("Base", [], R, fields=[], functions=[], is_final=False))
            supers.append(ast.SuperClassInstantiation(b.get_type(), []))
        if sup == "abstract":
            b = w.add(ast.ClassDeclaration("Base", [], A, fields=[], functions=[
                ast.FunctionDeclaration("bm", [], w.Int, None, METH, is_final=False)], is_final=False))
            supers.append(ast.SuperClassInstantiation(b.get_type(), []))
            fs.append(ast.FunctionDeclaration("bm", [], w.Int, ast.Block([ast.IntegerConstant(1, w.Int)]), METH,
                                              is_final=True, override=True))
        if sup in ("iface", "regular+iface"):
            i = w.add(ast.ClassDeclaration("Iface", [], I, fields=[], functions=[
                ast.FunctionDeclaration("im", [], w.String, None, METH, is_final=False)], is_final=False))
            supers.append(ast.SuperClassInstantiation(i.get_type(), None))
            if ctype == R:
                fs.append(ast.FunctionDeclaration("im", [], w.String, ast.Block([ast.StringConstant("i")]), METH,
                                                  is_final=True, override=True))
        if sup == "generic":
            g = w.cls_G()
            w.top["G"].is_final = False
            supers.append(ast.SuperClassInstantiation(g.get_type().new([w.String]), [ast.StringConstant("s")]))
        w.add(ast.ClassDeclaration("K", supers, ctype, fields=fields, functions=fs, is_final=final, type_parameters=tparams))
        return True

    for ctype, cn in ((R, "regular"), (I, "interface"), (A, "abstract")):
        for nfields in ((0, 1, 2) if ctype != I else (0,)):
            for funcs in {R: ("none", "concrete"), I: ("none", "abstract"), A: ("none", "concrete", "abstract", "both")}[ctype]:
                for sup in {R: ("none", "regular", "regular-noargs", "abstract", "iface", "regular+iface", "generic"),
                            I: ("none", "iface"), A: ("none", "regular", "iface", "regular+iface")}[ctype]:
                    for tps in ("none", "T", "bounded", "two"):
                        for final in ((False, True) if ctype == R else (False,)):
                            DECLS["class:%s:fields%d:%s:super-%s:tparams-%s:%s" % (
                                cn, nfields, funcs, sup, tps, "final" if final else "open")] = (
                                lambda w, a=ctype, b=nfields, c=funcs, d=sup, e=tps, f=final: mk(w, a, b, c, d, e, f))


_class_shapes()


def _func_shapes():
    def mk(w, where, body, ret, params, tps, final):
        tparams = {"none": [], "T": [tp.TypeParameter("T")], "bounded": [tp.TypeParameter("T", bound=w.Number)]}[tps]
        pl = {"none": [], "one": [("a", w.Int, False)], "two": [("a", w.Int, False), ("b", w.G_of(w.String), False)],
              "vararg-boxed": [("a", w.Int, False), ("r", w.arr(w.String), True)],
              "vararg-prim": [("r", w.arr(w.pInt or w.Int), True)],
              "vararg-param": [("r", w.arr(w.G_of(w.Int)), True)],
              "array": [("r", w.arr(w.Int), False)], "prim": [("a", w.pInt or w.Int, False)],
              "tparam": [("a", tparams[0] if tparams else w.Any, False)],
              "fn": [("f", w.fn([w.Int], w.Void), False)]}[params]
        ps = [ast.ParameterDeclaration(n, t, vararg=v) for n, t, v in pl]
        rt = {"Void": w.Void, "Int": w.Int, "Number": w.Number, "Array": w.arr(w.String), "Fn": w.fn([], w.Int)}[ret]
        val = {"Void": None, "Int": ast.IntegerConstant(1, w.Int), "Number": ast.RealConstant("1.5", w.Number),
               "Array": ast.ArrayExpr(w.arr(w.String), 0, []),
               "Fn": ast.Lambda(w.lam_name(), [], w.Int, ast.IntegerConstant(1, w.Int), w.fn([], w.Int))}[ret]
        if body == "block":
            b = ast.Block([val] if val is not None else [])
        elif body == "block2":
            b = ast.Block([ast.VariableDeclaration("z", ast.StringConstant("z"), var_type=w.String)] + ([val] if val is not None else []))
        else:
            b = val if val is not None else w.nop()
        f = ast.FunctionDeclaration("fun", ps, rt, b, METH if where == "method" else FUNC, is_final=final,
                                    type_parameters=tparams)
        if where == "top":
            w.add(f)
        elif where == "method":
            w.add(ast.ClassDeclaration("K", [], ast.ClassDeclaration.REGULAR, fields=[], functions=[f], is_final=False))
        else:
            if tparams:
                raise Skip("a nested function has no type parameters")
            if ret == "Void" and body == "expr":
                w.add(ast.FunctionDeclaration("outer", [], w.Void, ast.Block([f, w.nop()]), FUNC))
                return False
            w.add(ast.FunctionDeclaration("outer", [], w.Void, ast.Block([f, w.nop()]), FUNC))
        return True

    for where in ("top", "method", "nested"):
        for body in ("block", "block2", "expr"):
            for ret in ("Void", "Int", "Number", "Array", "Fn"):
                for params in ("none", "one", "two", "vararg-boxed", "vararg-prim", "vararg-param", "array", "prim", "tparam", "fn"):
                    for tps in ("none", "T", "bounded"):
                        if (params == "tparam") != (tps != "none"):
                            continue
                        for final in (True, False):
                            if not final and (where != "method" or body != "block"):
                                continue
                            DECLS["func:%s:%s:%s:params-%s:tparams-%s:%s" % (where, body, ret, params, tps,
                                                                            "final" if final else "open")] = (
                                lambda w, a=where, b=body, c=ret, d=params, e=tps, f=final: mk(w, a, b, c, d, e, f))


_func_shapes()


def _type_shapes():
    """types printed by get_type_name / type_arg2str: as the type of a top-level variable initialised with null"""
    def shapes(w):
        g, a = w.cls_G().get_type(), w.cls_A().get_type()
        return OrderedDict([
            ("wild-extends", g.new([tp.WildCardType(w.Number, tp.Covariant)])),
            ("wild-super", g.new([tp.WildCardType(w.Int, tp.Contravariant)])),
            ("wild-star", g.new([tp.WildCardType()])),
            ("wild-extends-param", g.new([tp.WildCardType(g.new([w.String]), tp.Covariant)])),
            ("nested-param", g.new([g.new([a])])),
            ("array-of-array", w.arr(w.arr(w.Int))),
            ("array-of-param", w.arr(g.new([w.String]))),
            ("array-of-prim", w.arr(w.pInt or w.Int)),
            ("param-of-array", g.new([w.arr(w.String)])),
            ("fn0-void", w.fn([], w.Void)),
            ("fn2", w.fn([w.Int, g.new([w.String])], w.arr(w.Int))),
            ("fn-of-fn", w.fn([w.fn([], w.Int)], w.fn([w.Int], w.Void))),
            ("fn-wild", w.fn([tp.WildCardType(w.Number, tp.Contravariant)], tp.WildCardType(w.Number, tp.Covariant))),
        ] + [("builtin-" + n, getattr(w, n)) for n in ("Any", "Number", "Int", "Long", "Short", "Byte", "Float", "Double", "Bool",
                                                        "Char", "String")])
    names = list(shapes(World("java")))
    for n in names:
        for where in ("topvar", "local", "param", "field", "ret", "bottom-cast", "new-targ", "is"):
            def f(w, n=n, where=where):
                t = shapes(w)[n]
                null = ast.BottomConstant(None)
                if where == "topvar":
                    w.add(ast.VariableDeclaration("x", null, var_type=t))
                elif where == "local":
                    w.add(ast.FunctionDeclaration("test", [], w.Void, ast.Block([ast.VariableDeclaration("x", null, var_type=t)]), FUNC))
                elif where == "param":
                    w.add(ast.FunctionDeclaration("test", [ast.ParameterDeclaration("x", t)], w.Void, ast.Block([]), FUNC))
                elif where == "field":
                    w.add(ast.ClassDeclaration("K", [], ast.ClassDeclaration.REGULAR, fields=[ast.FieldDeclaration("x", t)],
                                               functions=[], is_final=True))
                elif where == "ret":
                    w.add(ast.FunctionDeclaration("test", [], t, ast.Block([null]), FUNC))
                elif where == "bottom-cast":
                    w.add(ast.VariableDeclaration("x", ast.BottomConstant(t), var_type=w.Any))
                elif where == "new-targ":
                    gt = w.cls_G().get_type().new([t])
                    w.add(ast.VariableDeclaration("x", ast.New(gt, [ast.BottomConstant(t)]), var_type=gt))
                    return not (t.is_wildcard() or n.startswith("wild") and False)
                else:
                    if n.startswith("builtin") is False and getattr(t, "type_args", None):
                        # instanceof prints get_name(): the bare constructor name
                        pass
                    w.add(ast.FunctionDeclaration("test", [ast.ParameterDeclaration("o", w.Any)], w.Bool, ast.Block([
                        ast.Conditional(ast.Is(ast.Variable("o"), t), ast.BooleanConstant("true"), ast.BooleanConstant("false"), w.Bool)]), FUNC))
                    return not getattr(t, "type_args", None) and n != "builtin-Any"
                return True
            DECLS["type:%s:%s" % (n, where)] = f


_type_shapes()


@decl("program:empty")
def _(w):
    return True


@decl("program:only-main")
def _(w):
    w.add(ast.FunctionDeclaration("main", [], w.Void, ast.Block([]), FUNC))
    return True


@decl("program:main-between")
def _(w):
    w.topvar("before", w.Int, ast.IntegerConstant(1, w.Int))
    w.add(ast.FunctionDeclaration("main", [], w.Void, ast.Block([w.nop()]), FUNC))
    w.add_once_empty()
    w.topvar("after", w.String, ast.StringConstant("z"), final=False)
    w.func("last", [], w.Int, ast.IntegerConstant(1, w.Int))
    return True


@decl("program:classes-only")
def _(w):
    w.cls_B()
    w.cls_G()
    return True


@decl("program:method-named-main")
def _(w):
    w.add(ast.ClassDeclaration("K", [], ast.ClassDeclaration.REGULAR, fields=[], functions=[
        ast.FunctionDeclaration("main", [], w.Void, ast.Block([]), METH)], is_final=True))
    return True


@decl("program:same-name-function-and-variable")
def _(w):
    w.topvar("dup", w.Int, ast.IntegerConstant(1, w.Int))
    w.add(ast.FunctionDeclaration("test", [ast.ParameterDeclaration("dup", w.Int)], w.Int, ast.Block([ast.Variable("dup")]), FUNC))
    return True


@decl("class:super-args:lambda-block-and-number")
def _(w):
    sig = w.fn([], w.Int)
    base = w.add(ast.ClassDeclaration("Base", [], ast.ClassDeclaration.REGULAR, fields=[
        ast.FieldDeclaration("f", sig), ast.FieldDeclaration("g", w.Number), ast.FieldDeclaration("h", w.String)],
        functions=[], is_final=False))
    lam = ast.Lambda(w.lam_name(), [], w.Int, ast.Block([ast.VariableDeclaration("i", ast.IntegerConstant(1, w.Int), var_type=w.Int),
                                                      ast.Variable("i")]), sig)
    cond = ast.Conditional(ast.BooleanConstant("true"), ast.StringConstant("a  b"), ast.StringConstant("c"), w.String)
    w.add(ast.ClassDeclaration("K", [ast.SuperClassInstantiation(base.get_type(), [lam, ast.IntegerConstant(2, w.Number), cond])],
                               ast.ClassDeclaration.REGULAR, fields=[ast.FieldDeclaration("own", w.Int)], functions=[], is_final=True))
    return True


@decl("class:override-chain")
def _(w):
    I, A, R = ast.ClassDeclaration.INTERFACE, ast.ClassDeclaration.ABSTRACT, ast.ClassDeclaration.REGULAR
    t = tp.TypeParameter("T")
    i = w.add(ast.ClassDeclaration("I1", [], I, fields=[], functions=[
        ast.FunctionDeclaration("m", [ast.ParameterDeclaration("p", t)], t, None, METH, is_final=False)],
        is_final=False, type_parameters=[t]))
    i2 = w.add(ast.ClassDeclaration("I2", [ast.SuperClassInstantiation(i.get_type().new([w.String]), None)], I, fields=[],
                                    functions=[], is_final=False))
    ab = w.add(ast.ClassDeclaration("Ab", [ast.SuperClassInstantiation(i2.get_type(), None)], A, fields=[
        ast.FieldDeclaration("k", w.Int)], functions=[
        ast.FunctionDeclaration("n", [], w.Int, None, METH, is_final=False),
        ast.FunctionDeclaration("q", [], w.Int, ast.Block([ast.IntegerConstant(4, w.Int)]), METH, is_final=False)], is_final=False))
    w.add(ast.ClassDeclaration("Co", [ast.SuperClassInstantiation(ab.get_type(), [ast.IntegerConstant(1, w.Int)])], R, fields=[],
                               functions=[
        ast.FunctionDeclaration("m", [ast.ParameterDeclaration("p", w.String)], w.String, ast.Block([ast.Variable("p")]), METH, override=True),
        ast.FunctionDeclaration("n", [], w.Int, ast.Block([ast.Variable("k")]), METH, override=True),
        ast.FunctionDeclaration("r", [], w.fn([w.String], w.String), ast.Block([ast.FunctionReference("m", None, w.fn([w.String], w.String))]), METH),
        ast.FunctionDeclaration("inherited", [], w.fn([], w.Int), ast.Block([ast.FunctionReference("n", None, w.fn([], w.Int))]), METH),
        ast.FunctionDeclaration("inherited2", [], w.fn([], w.Int), ast.Block([ast.FunctionReference("q", None, w.fn([], w.Int))]), METH)],
        is_final=True))
    return True


@decl("program:x-counter-across-functions")
def _(w):
    for i in range(3):
        w.add(ast.FunctionDeclaration("t%d" % i, [], w.Void, ast.Block([ast.StringConstant("s%d" % i)]), FUNC))
    sig = w.fn([], w.Int)
    w.add(ast.FunctionDeclaration("t3", [], w.Void, ast.Block([ast.Lambda(w.lam_name(), [], w.Int, ast.IntegerConstant(1, w.Int), sig)]), FUNC))
    w.add(ast.FunctionDeclaration("t4", [], w.Void, ast.Block([
        ast.VariableDeclaration("l", ast.Lambda(w.lam_name(), [], w.Int, ast.IntegerConstant(1, w.Int), sig), var_type=sig),
        ast.Variable("l")]), FUNC))
    w.func("tf", [], w.Int, ast.Block([ast.IntegerConstant(1, w.Int)]))
    w.add(ast.FunctionDeclaration("t5", [], w.Void, ast.Block([ast.FunctionReference("tf", None, sig)]), FUNC))
    w.add(ast.FunctionDeclaration("t6", [], w.Void, ast.Block([ast.BottomConstant(w.String)]), FUNC))
    w.add(ast.FunctionDeclaration("t7", [], w.Void, ast.Block([
        ast.Conditional(ast.BooleanConstant("true"), ast.BottomConstant(None), ast.BottomConstant(None), w.Any)]), FUNC))
    return True


@decl("block:empty-as-expression")
def _(w):
    w.add(ast.VariableDeclaration("x", ast.Block([], False), var_type=w.Any))
    w.add(ast.FunctionDeclaration("test", [], w.Void, ast.Block([ast.VariableDeclaration("y", ast.Block([], False), var_type=w.Any)]), FUNC))
    return True


@decl("block:expression-ends-in-function-declaration")
def _(w):
    f = ast.FunctionDeclaration("inner", [], w.Int, ast.Block([ast.IntegerConstant(1, w.Int)]), FUNC)
    w.add(ast.FunctionDeclaration("test", [], w.Void, ast.Block([ast.VariableDeclaration("y", ast.Block([f], False), var_type=w.Any)]), FUNC))
    return False


@decl("block:expression-ends-in-void-call-assignment-declaration")
def _(w):
    w.topvar("tw", w.Int, ast.IntegerConstant(1, w.Int), final=False)
    for i, last in enumerate((w.nop(), ast.Assignment("tw", ast.IntegerConstant(2, w.Int)),
                              ast.VariableDeclaration("z", ast.IntegerConstant(2, w.Int), var_type=w.Int))):
        w.add(ast.FunctionDeclaration("t%d" % i, [], w.Void, ast.Block([
            ast.VariableDeclaration("y", ast.Block([last], False), var_type=w.Any)]), FUNC))
    return True


# ------------------------------------------------------------------------------------------ members
class Member:
    __slots__ = ("index", "kind", "ctx", "slot", "probe", "name")

    def __init__(self, kind, ctx, slot, probe, name):
        self.index, self.kind, self.ctx, self.slot, self.probe, self.name = None, kind, ctx, slot, probe, name

    def __repr__(self):
        return "<%d %s>" % (self.index, self.name)


def _skip_pair(P, slot, ctx):
    """combinations that are never expressible, decided without building (keeps the enumeration small)"""
    if ctx in ("topfunc-expr", "method-expr", "nested-expr", "lambda-expr", "topvar", "super-arg") and slot in (
            "stmt", "init-nonfinal", "assign-recv-field", "nested-expr-body", "nested-block-body", "assign-local"):
        return True
    if ctx == "topvar" and slot not in ("init",):
        return True
    if ctx == "super-arg" and slot not in ("ret", "arg-ret", "new-arg", "array-elem", "cond-true", "eq-null"):
        return True
    if ctx == "main" and slot in ("ret", "arg-ret", "new-arg", "array-elem", "eq-null", "cond-true", "cond-false", "is-true", "is-false"):
        return True
    if slot == "assign-this-field" and ctx not in ("method", "nested-in-method", "lambda-in-method"):
        return True
    return False


_CACHE = {}


def members(lang="java"):
    """the whole family, in a fixed order; Member.index is the replay key (with the name as a cross-check).
    Not the full triple product (40 000 programs): every (probe, slot) pair in two contexts, every (probe, context) pair
    in two slots, every (slot, context) pair with every probe GROUP representative — the contexts / slots that complete a
    pair rotate with the position of the probe, so that all triples of the small factors occur many times."""
    if lang in _CACHE:
        return _CACHE[lang]
    out, seen = [], set()

    def add(P, s, c):
        if (P.name, s, c) in seen or _skip_pair(P, s, c):
            return False
        seen.add((P.name, s, c))
        out.append(Member("probe", c, s, P.name, "%s @ %s @ %s" % (P.name, s, c)))
        return True

    for k, P in enumerate(PROBES):
        if P.group == "call":
            slots, ctxs = list(CALL_SLOTS), list(CALL_CONTEXTS)
        elif P.group == "fncall":
            slots, ctxs = list(CALL_SLOTS), list(CONTEXTS)
        else:
            slots, ctxs = list(SLOTS), list(CONTEXTS)
        for i, s in enumerate(slots):          # (probe, slot) in two rotating contexts (first expressible ones)
            n = 0
            for j in range(len(ctxs)):
                if n < 2 and add(P, s, ctxs[(k + 3 * i + j * 5) % len(ctxs)]):
                    n += 1
        for j, c in enumerate(ctxs):           # (probe, context) in two rotating slots
            n = 0
            for i in range(len(slots)):
                if n < 2 and add(P, slots[(k + 2 * j + i * 7) % len(slots)], c):
                    n += 1
    for n in DECLS:
        out.append(Member("decl", None, None, n, n))
    for i, m in enumerate(out):
        m.index = i
    _CACHE[lang] = out
    return out


_PROBE_BY_NAME = {}


def build(m, lang="java"):
    """-> (ast.Program, valid_target) or raises Skip"""
    if not _PROBE_BY_NAME:
        _PROBE_BY_NAME.update({p.name: p for p in PROBES})
    w = World(lang)
    if m.kind == "decl":
        ok = DECLS[m.probe](w)
        return w.build(), bool(ok)
    P = _PROBE_BY_NAME[m.probe]
    S = Scope(w, m.ctx)
    e, t = P.fn(S)
    stmts, ret, ok1 = SLOTS[m.slot](S, e, t, P)
    ok2 = CONTEXTS[m.ctx](S, S.pre + stmts, ret)
    if S.fields and not S.in_class:
        raise Skip("field outside a class")
    ok3 = S.invalid is None
    if not P.hint_ok and m.slot == "ret" and m.ctx in ("true-block", "false-block", "true-block-of-is-not"):
        ok3 = False     # the block of the branch is printed as Function0<type hint of its last statement>
    if m.probe in ("assign:local", "assign:param-of-fn-type") and m.slot in (
            "lambda-expr-body", "lambda-block-body", "nested-expr-body", "nested-block-body"):
        ok3 = False     # the assigned local is declared outside the lambda that the slot builds: not effectively final
    if m.probe == "var:top-shadowed" and ("block" in m.ctx or "lambda" in m.ctx):
        ok3 = False     # declarations under true_block / false_block / a lambda are not found by get_namespaces_decls: `Main.`
    return w.build(), bool(P.valid and ok1 and ok2 and ok3)


def expressible(m, lang="java"):
    try:
        build(m, lang)
        return True
    except Skip:
        return False


def quick_slice(ms, seed, n, lang="java"):
    """indices of a slice of about n EXPRESSIBLE members: every probe once (natural slot, context rotating with the seed),
    every slot and every context with a rotating probe, a rotating part of the declaration shapes and all program-level
    ones, then a seeded sample of the rest.  Deterministic in (seed, n, family)."""
    import random
    rng = random.Random(seed)
    chosen, seen = [], set()

    def take(i):
        if i not in seen and expressible(ms[i], lang):
            seen.add(i)
            chosen.append(i)
            return True
        return False
    by_probe = OrderedDict()
    for m in ms:
        if m.kind == "probe":
            by_probe.setdefault(m.probe, []).append(m.index)
    for k, (p, idx) in enumerate(by_probe.items()):
        nat = [i for i in idx if ms[i].slot in ("ret", "last-void", "stmt")] or idx
        r = (k * 7 + seed) % len(nat)
        for i in nat[r:] + nat[:r]:
            if take(i):
                break
    for key in ("slot", "ctx"):
        groups = OrderedDict()
        for m in ms:
            if m.kind == "probe":
                groups.setdefault(getattr(m, key), []).append(m.index)
        for g, idx in groups.items():
            for i in rng.sample(idx, len(idx))[:40]:
                if take(i):
                    break
    for m in ms:        # constants and operators as non-last statements (not valid Java; the only way to the un-cast literals)
        if m.kind == "probe" and m.slot == "stmt" and m.probe.startswith(("int:", "real:", "char", "bool", "string", "binop:comparison", "binop:arith")):
            take(m.index)
    decls = [m.index for m in ms if m.kind == "decl"]
    for j, i in enumerate(decls):
        if (j + seed) % 9 == 0 or ms[i].probe.startswith(("program:", "block:", "class:super", "class:override")):
            take(i)
    rest = [m.index for m in ms if m.index not in seen]
    rng.shuffle(rest)
    for i in rest:
        if len(chosen) >= n:
            break
        take(i)
    return sorted(chosen)


def neighbours(ms, i, limit=12):
    """members that share two coordinates with member i (the failing-input search looks at them)"""
    m = ms[i]
    if m.kind == "decl":
        pre = m.probe.rsplit(":", 2)[0]
        return [x.index for x in ms if x.kind == "decl" and x.index != i and x.probe.startswith(pre)][:limit]
    out = [x.index for x in ms if x.kind == "probe" and x.index != i and
           ((x.probe == m.probe and (x.slot == m.slot or x.ctx == m.ctx)))]
    return out[:limit]
