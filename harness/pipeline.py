"""Deterministic runs of the real pipeline: Generator -> TypeErasure -> TypeOverwriting ->
translators, exactly as hephaestus.gen_program drives them, with by-value exports after
each stage.  `(lang, seed, switches, max_depth)` is a replay:

 * PYTHONHASHSEED=0 (set by ./check),
 * Python's global `random` is seeded before `src.utils` is imported (identifier pool),
 * `Node.__hash__` is a per-program creation counter (sets of AST nodes feed random.choice),
 * the word pool and the generator configuration are reset for every program.

Programs run in worker processes with a per-program wall-clock cap; a cut-off is counted,
never reported as a violation."""
import itertools
import json
import os
import random as _pyrandom
import signal
import sys
import time
import traceback

_STATE = {"ready": False}
SWITCH_NAMES = ("disable_use_site_variance", "disable_contravariance_use_site",
                "disable_bounded_type_parameters", "disable_parameterized_functions")
LANGS = ("java", "kotlin", "groovy", "scala")


class Cutoff(BaseException):
    pass


def _alarm(signum, frame):
    raise Cutoff()


def setup():
    if _STATE["ready"]:
        return
    if "src.utils" in sys.modules:
        # the pool was already sampled: rebuild it deterministically
        pass
    _pyrandom.seed(0)
    if len(sys.argv) > 1:
        sys.argv = [sys.argv[0]]
    from src.ir import node as _n
    cnt = {"c": itertools.count(1)}

    def _h(self):
        v = self.__dict__.get("_vid")
        if v is None:
            v = next(cnt["c"])
            self.__dict__["_vid"] = v
        return v
    _n.Node.__hash__ = _h
    _STATE["cnt"] = cnt
    from src import utils
    ru = utils.RandomUtils
    # deterministic pool irrespective of import order: re-sample with a fixed seed
    words = utils.read_lines(os.path.join(ru.resource_path, "words"))
    pool = set(_pyrandom.Random(0).sample(words, ru.WORD_POOL_LEN))
    _STATE["pool"] = pool
    _STATE["ready"] = True


def configure(lang, switches, max_depth):
    from src import utils
    from src.generators.config import cfg
    pool = _STATE["pool"]
    # as src/args.py does: the REAL removal (C05: a repaired, case-insensitive removal must be followed)
    utils.random.INITIAL_WORDS = set(pool)
    utils.random.WORDS = set(pool)
    utils.random.remove_reserved_words(lang)
    sw = dict(zip(SWITCH_NAMES, switches))
    cfg.dis.use_site_variance = bool(sw["disable_use_site_variance"])
    cfg.dis.use_site_contravariance = bool(sw["disable_contravariance_use_site"])
    cfg.limits.max_depth = max_depth
    cfg.prob.bounded_type_parameters = 0 if sw["disable_bounded_type_parameters"] else 0.5
    cfg.prob.parameterized_functions = 0 if sw["disable_parameterized_functions"] else 0.3


def translators():
    from src.translators.java import JavaTranslator
    from src.translators.kotlin import KotlinTranslator
    from src.translators.groovy import GroovyTranslator
    from src.translators.scala import ScalaTranslator
    return {"java": JavaTranslator, "kotlin": KotlinTranslator, "groovy": GroovyTranslator,
            "scala": ScalaTranslator}


def new_translator(lang, package="src.pkg", options=None):
    return translators()[lang](package, options if options is not None else {})


def generate(lang, seed, switches=(0, 0, 0, 0), max_depth=6):
    """one generator run, as ProgramProcessor.generate_program does it"""
    setup()
    from src import utils
    from src.generators.generator import Generator
    configure(lang, switches, max_depth)
    _STATE["cnt"]["c"] = itertools.count(1)
    utils.random.r.seed(seed)
    utils.random.reset_word_pool()
    return Generator(language=lang, logger=None, options={}).generate()


def run_one(spec):
    """spec: {lang, seed, switches, max_depth, stages: subset of [gen, erase, overwrite],
    export: bool, translate: [langs] | None, cap: seconds, plugins: [module names],
    erasure_options / overwrite_options: dict}.
    Returns {spec, stages: {name: {export?, texts?, flags…}}, exception?, cutoff?, times}"""
    setup()
    from src import utils
    import export_ast
    out = {"spec": spec, "stages": {}, "times": {}}
    lang, seed = spec["lang"], spec["seed"]
    switches = tuple(spec.get("switches", (0, 0, 0, 0)))
    stages = spec.get("stages", ["gen"])
    plugins = []
    for name in spec.get("plugins", []):
        mod = __import__(name)
        plugins.append(mod)
    cap = spec.get("cap", 60)
    old = signal.signal(signal.SIGALRM, _alarm)
    signal.setitimer(signal.ITIMER_REAL, cap)
    stage = "gen"
    pstate = {}
    try:
        for pl in plugins:
            pl.install(pstate, spec)
        t0 = time.time()
        program = generate(lang, seed, switches, spec.get("max_depth", 6))
        out["times"]["gen"] = time.time() - t0

        def snapshot(name, extra=None):
            st = dict(extra or {})
            if spec.get("export", True):
                st["export"] = export_ast.export_program(program)
            tl = spec.get("translate")
            if tl:
                st["texts"] = {}
                for l2 in tl:
                    tr = new_translator(l2, spec.get("package", "src.pkg"), spec.get("translator_options"))
                    st["texts"][l2] = utils.translate_program(tr, program)
            for pl in plugins:
                if hasattr(pl, "stage"):
                    pl.stage(pstate, name, program, st)
            out["stages"][name] = st
        snapshot("gen")
        if "erase" in stages:
            stage = "erase"
            from src.transformations.type_erasure import TypeErasure
            t0 = time.time()
            te = TypeErasure(program, lang, None, dict(spec.get("erasure_options", {})))
            te.transform()
            program = te.result()
            out["times"]["erase"] = time.time() - t0
            snapshot("erase", {"is_transformed": bool(te.is_transformed)})
        if "overwrite" in stages:
            stage = "overwrite"
            from src.transformations.type_overwriting import TypeOverwriting
            t0 = time.time()
            to = TypeOverwriting(program, lang, None, dict(spec.get("overwrite_options", {})))
            to.transform()
            program = to.result()
            out["times"]["overwrite"] = time.time() - t0
            snapshot("overwrite", {"is_transformed": bool(to.is_transformed), "error_injected": to.error_injected})
        stage = "done"
    except Cutoff:
        out["cutoff"] = stage
    except Exception as e:  # an internal failure of the pipeline is data (C18), not a harness error
        out["exception"] = {"stage": stage, "type": type(e).__name__, "msg": str(e)[:500],
                            "traceback": traceback.format_exc()[-3000:]}
    finally:
        signal.setitimer(signal.ITIMER_REAL, 0)
        signal.signal(signal.SIGALRM, old)
        for pl in plugins:
            try:
                out.setdefault("plugins", {})[pl.__name__] = pl.collect(pstate)
            except Exception as e:
                out.setdefault("plugins", {})[pl.__name__] = {"error": repr(e)}
            if hasattr(pl, "uninstall"):
                pl.uninstall(pstate)
    return out


def _worker_init():
    setup()


def run_many(specs, workers=None, chunk=1):
    """run specs in worker processes; results in the order of specs"""
    import multiprocessing as mp
    workers = workers or min(14, max(1, (os.cpu_count() or 2) - 2))
    if len(specs) <= 2 or workers == 1:
        return [run_one(s) for s in specs]
    ctx = mp.get_context("fork")   # spawn would re-import the main module in every worker
    with ctx.Pool(workers, initializer=_worker_init, maxtasksperchild=50) as pool:
        return pool.map(run_one, specs, chunksize=chunk)


def all_switch_settings():
    return [tuple(int(b) for b in format(i, "04b")) for i in range(16)]


if __name__ == "__main__":
    # python pipeline.py <lang> <seed> [stages…] : print a summary (debug aid)
    sys.path.insert(0, os.path.dirname(os.path.abspath(__file__)))
    lang, seed = sys.argv[1], int(sys.argv[2])
    st = sys.argv[3:] or ["gen"]
    sys.argv = sys.argv[:1]
    r = run_one({"lang": lang, "seed": seed, "stages": st, "translate": [lang], "cap": 120})
    for k, v in r["stages"].items():
        print(k, {kk: (len(json.dumps(vv)) if kk == "export" else vv if kk != "texts" else {a: len(b) for a, b in vv.items()})
                  for kk, vv in v.items()})
    print({k: v for k, v in r.items() if k not in ("stages", "spec")})
