"""pipeline plugin of C13: at every stage (gen, erase, overwrite) of a real pipeline run, inside the
worker, save the live program with the repo's own `utils.dump_program`, read it back with
`utils.load_program`, and

 model legs   (export_heap + the Lean driver, ops `pickle.*`)
   dump      Lean `dump` of the exported heap of p   == canonical op-codes of the real pickle (element-wise)
   load      Lean `load` of the real op-codes        ~= exported heap of the real q   (Lean isoCheck)
   iso       exported heap of p ~= exported heap of q (Lean isoCheck AND the Python reference `export_heap.iso`)
   proviso   `noKeyCycle` holds for p; the VM hashes no unbuilt instance (`unready == 0`)
 direct judge on the REAL code, independent of the model  (leg A: the harness's reproducible node hash,
                                                           leg B: CPython's real identity hash)
   translate   the four translators (fresh object each) give byte-identical text for p and q
   export      export_ast.export_program(p) == export_ast.export_program(q)
   redump      the file written for q is byte-identical to the one written for p
   lookups     `q.context._namespaces[d]` works for every key, namespaces equal to p's, in order
   mutations   TypeErasure / TypeOverwriting on deep copies of p and of q, identically seeded: equal
               exports and flags (leg B also: two deep copies of p, as a control)

Everything is returned as data; the parent (check_C13.py) turns differences into violations."""
import copy
import itertools
import os
import pickle
import tempfile
import traceback

import common
import export_ast
import export_heap as eh
import pipeline

LANGS = pipeline.LANGS
MUT_SEED = 424242


def _tmpdir():
    d = os.path.join(tempfile.gettempdir(), "c13_%d" % os.getuid())
    os.makedirs(d, exist_ok=True)
    return d


def roundtrip(p):
    """the repo's own two functions on a temporary file: (bytes written, program read back)"""
    from src import utils
    fd, path = tempfile.mkstemp(suffix=".bin", dir=_tmpdir())
    os.close(fd)
    try:
        utils.dump_program(path, p)
        with open(path, "rb") as f:
            data = f.read()
        q = utils.load_program(path)
    finally:
        try:
            os.unlink(path)
        except OSError:
            pass
    return data, q


def first_json_diff(a, b, path="$"):
    if type(a) is not type(b):
        return "%s: %r / %r" % (path, type(a).__name__, type(b).__name__)
    if isinstance(a, dict):
        for k in sorted(set(a) | set(b)):
            if k not in a or k not in b:
                return "%s.%s: missing on one side" % (path, k)
            d = first_json_diff(a[k], b[k], "%s.%s" % (path, k))
            if d:
                return d
        return None
    if isinstance(a, list):
        if len(a) != len(b):
            return "%s: lengths %d / %d" % (path, len(a), len(b))
        for i, (x, y) in enumerate(zip(a, b)):
            d = first_json_diff(x, y, "%s[%d]" % (path, i))
            if d:
                return d
        return None
    return None if a == b else "%s: %r / %r" % (path, a, b)


def first_text_diff(a, b):
    n = min(len(a), len(b))
    k = next((i for i in range(n) if a[i] != b[i]), n)
    return {"offset": k, "line": a.count("\n", 0, k) + 1, "p": a[max(0, k - 80):k + 80], "q": b[max(0, k - 80):k + 80]}


# ------------------------------------------------------------------ model legs
def model_request(p, data, q):
    """(summary, driver request) — the request is answered later (one driver process per pipeline run)"""
    out = {}
    optally = {}
    ops = eh.ops_of_pickle(data, optally)
    hp, kinds = eh.export_heap(p, with_kinds=True)
    hq = eh.export_heap(q)
    out["incoherent"] = kinds.pop("__incoherent__", [])
    out["objects"], out["ops"] = len(hp["objs"]), len(ops)
    out["kinds"] = {k: v for k, v in kinds.items() if not k.startswith("class:")}
    out["classes"] = sorted(k[6:] for k in kinds if k.startswith("class:"))
    out["opnames"] = optally
    out["py_iso"] = eh.iso(hp, hq)
    return out, {"op": "pickle.check", "p": hp, "q": hq, "ops": ops}


def model_judge(summary, answer):
    """differences between the abstract machine and CPython on one case"""
    if "error" in answer:
        raise common.HarnessError("driver: " + answer["error"])
    r = answer["r"]
    diffs = []
    if r == "malformed":
        return [{"leg": "driver-could-not-read-the-heaps", "detail": r, "hash": "model"}]
    d = r["dump"]
    if not (isinstance(d, dict) and d.get("equal")):
        diffs.append({"leg": "dump-opcodes", "detail": d})
    if r["iso_load_q"] is not True:
        diffs.append({"leg": "load-iso-real-q", "detail": r["iso_load_q"]})
    if r["iso_load_p"] is not True:
        diffs.append({"leg": "load-iso-original", "detail": r["iso_load_p"]})
    if r["iso_p_q"] is not True or summary.get("py_iso") is not None:
        diffs.append({"leg": "heap-p-iso-heap-q", "detail": {"lean": r["iso_p_q"], "python": summary.get("py_iso")}})
    if r["nokeycycle"] is not True:
        diffs.append({"leg": "nokeycycle", "detail": r["nokeycycle"]})
    if r.get("all_visited") is not True:
        # the proviso of theorem redump_after_load: the pickler memoises as many objects as the exported heap has cells
        diffs.append({"leg": "redump-proviso-all-cells-visited", "detail": r.get("all_visited")})
    if r["unready"] != 0:
        diffs.append({"leg": "unready-keys", "detail": r["unready"]})
    summary["nokeycycle"], summary["unready"] = r["nokeycycle"], r["unready"]
    for x in diffs:
        x["hash"] = "model"
    return diffs


def model_legs(p, data, q):
    s, rq = model_request(p, data, q)
    return s, model_judge(s, common.run_driver([rq])[0])


# ------------------------------------------------------------------ direct judge
def _translate_all(prog):
    from src import utils
    res = {}
    for L in LANGS:
        try:
            res[L] = ("text", utils.translate_program(pipeline.new_translator(L, "src.pkg", {}), prog))
        except Exception as e:  # noqa: BLE001  the translator's own failure is data: it must be the same for q
            res[L] = ("raises", type(e).__name__)
    return res


def _words_snapshot():
    from src import utils
    return sorted(utils.random.WORDS), sorted(utils.random.INITIAL_WORDS)


def mutate(prog, lang, which, words):
    """run one transformation on a deep copy with a fixed seed; by-value outcome"""
    from src import utils
    from src.transformations.type_erasure import TypeErasure
    from src.transformations.type_overwriting import TypeOverwriting
    c = copy.deepcopy(prog)
    utils.random.WORDS = set(words[0])
    utils.random.INITIAL_WORDS = set(words[1])
    utils.random.r.seed(MUT_SEED)
    try:
        if which == "erase":
            t = TypeErasure(c, lang, None, {})
        else:
            t = TypeOverwriting(c, lang, None, {})
        t.transform()
        res = t.result()
        out = {"export": export_ast.export_program(res), "is_transformed": bool(t.is_transformed)}
        if which == "overwrite":
            out["error_injected"] = t.error_injected
        return out
    except Exception as e:  # noqa: BLE001
        return {"raises": type(e).__name__, "msg": str(e)[:200]}


def lookups(p, q):
    """`_namespaces` of q answers for each of its keys, with the namespaces p has, in p's order"""
    bad = []
    np_, nq = p.context._namespaces, q.context._namespaces
    if len(np_) != len(nq):
        bad.append("sizes %d / %d" % (len(np_), len(nq)))
    for i, ((kp, vp), (kq, vq)) in enumerate(zip(np_.items(), nq.items())):
        try:
            got = nq[kq]
        except Exception as e:  # noqa: BLE001
            bad.append("entry %d (%s): lookup raises %s" % (i, type(kq).__name__, type(e).__name__))
            continue
        if got != vq or vq != vp:
            bad.append("entry %d (%s): namespace %r / %r / %r" % (i, type(kq).__name__, vp, vq, got))
        if type(kp) is not type(kq):
            bad.append("entry %d: key classes %s / %s" % (i, type(kp).__name__, type(kq).__name__))
        if len(bad) > 5:
            break
    # every declaration registered in _context is found through get_namespace exactly as in p
    try:
        for (ns, ents), (ns2, ents2) in zip(p.context._context.items(), q.context._context.items()):
            for kind in ("types", "funcs", "lambdas", "vars", "classes", "decls"):
                for (n1, d1), (n2, d2) in zip(ents[kind].items(), ents2[kind].items()):
                    a, b = p.context.get_namespace(d1), q.context.get_namespace(d2)
                    if a != b or n1 != n2:
                        bad.append("get_namespace(%s %s) %r / %r" % (kind, n1, a, b))
                        if len(bad) > 8:
                            return bad
    except Exception as e:  # noqa: BLE001
        bad.append("get_namespace raises %s: %s" % (type(e).__name__, str(e)[:120]))
    return bad


def judge_direct(p, q, data, lang, leg, control=False, mutations=("erase", "overwrite")):
    """differences between p and q observed on the real code alone"""
    from src import utils
    diffs = []
    words = _words_snapshot()
    rstate = utils.random.r.getstate()
    try:
        tp_, tq = _translate_all(p), _translate_all(q)
        for L in LANGS:
            if tp_[L] != tq[L]:
                d = first_text_diff(tp_[L][1], tq[L][1]) if tp_[L][0] == tq[L][0] == "text" else [tp_[L][0], tq[L][0],
                                                                                                 tp_[L][1][:80], tq[L][1][:80]]
                diffs.append({"leg": "translate:" + L, "detail": d})
        def guarded(fn, x):
            try:
                return ("ok", fn(x))
            except Exception as e:  # noqa: BLE001
                return ("raises", type(e).__name__ + ": " + str(e)[:120])
        ep, eq = guarded(export_ast.export_program, p), guarded(export_ast.export_program, q)
        if ep != eq:
            diffs.append({"leg": "export", "detail": first_json_diff(ep[1], eq[1]) if ep[0] == eq[0] == "ok"
                          else [ep[0], str(ep[1])[:160], eq[0], str(eq[1])[:160]]})
        fd, path = tempfile.mkstemp(suffix=".bin", dir=_tmpdir())
        os.close(fd)
        try:
            utils.dump_program(path, q)
            with open(path, "rb") as f:
                data2 = f.read()
        finally:
            os.unlink(path)
        if data2 != data:
            o1, o2 = eh.ops_of_pickle(data), eh.ops_of_pickle(data2)
            k = next((i for i, (x, y) in enumerate(zip(o1, o2)) if x != y), min(len(o1), len(o2)))
            diffs.append({"leg": "redump", "detail": {"bytes": [len(data), len(data2)], "opcodes_equal": o1 == o2,
                                                      "first_op_diff": k, "p": o1[k:k + 3], "q": o2[k:k + 3]}})
        try:
            lk = lookups(p, q)
        except Exception as e:  # noqa: BLE001
            lk = ["look-ups raise %s: %s" % (type(e).__name__, str(e)[:120])]
        if lk:
            diffs.append({"leg": "lookups", "detail": lk[:6]})
        for which in mutations:
            mp, mq = mutate(p, lang, which, words), mutate(q, lang, which, words)
            if mp != mq:
                det = first_json_diff(mp, mq)
                entry = {"leg": "mutation:" + which, "detail": det}
                if control:
                    mp2 = mutate(p, lang, which, words)
                    entry["control_two_copies_of_p_differ"] = mp2 != mp
                diffs.append(entry)
    finally:
        utils.random.WORDS = set(words[0])
        utils.random.INITIAL_WORDS = set(words[1])
        utils.random.r.setstate(rstate)
    for d in diffs:
        d["hash"] = leg
    return diffs


class RealHash:
    """within the block `Node.__hash__` is CPython's identity hash, as in the real tool"""

    def __enter__(self):
        from src.ir import node as _n
        self.n = _n
        self.saved = _n.Node.__dict__.get("__hash__")
        if self.saved is not None:
            del _n.Node.__hash__
        return self

    def __exit__(self, *a):
        if self.saved is not None:
            self.n.Node.__hash__ = self.saved
        return False


def battery(p, lang, legs=("model", "A", "B"), defer=None, mutations=("erase", "overwrite"), mutations_a=None):
    """everything C13 claims about one live program; returns {"summary", "diffs", "model_diffs"?, "unsupported"?}.
    `defer`: a list — the driver request is appended there instead of being run (see `collect`)"""
    out = {"summary": {}, "diffs": []}
    cnt = pipeline._STATE.get("cnt")
    nxt = next(cnt["c"]) if cnt else None
    try:
        try:
            data, q = roundtrip(p)
        except Exception as e:  # noqa: BLE001
            out["diffs"].append({"leg": "roundtrip-raises:" + type(e).__name__, "hash": "harness",
                                 "detail": traceback.format_exc()[-1200:]})
            return out
        out["summary"]["bytes"] = len(data)
        if "model" in legs:
            try:
                if defer is None:
                    s, d = model_legs(p, data, q)
                    out["model_diffs"] = d
                else:
                    s, rq = model_request(p, data, q)
                    defer.append((out, rq))
                out["summary"].update(s)
            except eh.Unsupported as e:
                out["unsupported"] = str(e)
        if "A" in legs:
            out["diffs"] += judge_direct(p, q, data, lang, "harness",
                                         mutations=mutations if mutations_a is None else mutations_a)
        if "B" in legs:
            with RealHash():
                try:
                    pb = pickle.loads(data)          # all dicts / sets rebuilt under the identity hash
                    data_b, qb = roundtrip(pb)
                    if data_b != data:
                        out["diffs"].append({"leg": "redump-under-identity-hash", "hash": "identity",
                                             "detail": [len(data), len(data_b)]})
                    out["diffs"] += judge_direct(pb, qb, data_b, lang, "identity", control=True, mutations=mutations)
                except Exception as e:  # noqa: BLE001
                    out["diffs"].append({"leg": "roundtrip-raises:" + type(e).__name__, "hash": "identity",
                                         "detail": traceback.format_exc()[-1200:]})
    finally:
        if cnt:
            cnt["c"] = itertools.count(nxt)
    return out


# ------------------------------------------------------------------ plugin interface
# which transformations are tried on the copies of a program saved at a stage (quick tier: the ones the pipeline
# would apply next, and only under the identity hash; thorough: both, under both hashes)
NEXT = {"gen": ("erase", "overwrite"), "erase": ("overwrite",), "overwrite": ("erase",)}


def install(state, spec):
    state["legs"] = tuple(spec.get("c13_legs", ("model", "A", "B")))
    state["full"] = bool(spec.get("c13_full", False))
    state["deferred"] = []


def stage(state, name, program, st):
    # the per-program wall-clock cap of pipeline.run_one is meant for the pipeline, not for this battery
    import signal
    left = signal.setitimer(signal.ITIMER_REAL, 0)
    try:
        full = state["full"]
        st["c13"] = battery(program, program.language, state["legs"], defer=state["deferred"],
                            mutations=("erase", "overwrite") if full else NEXT.get(name, ("erase",)),
                            mutations_a=None if full else ())
    finally:
        if left[0] > 0:
            signal.setitimer(signal.ITIMER_REAL, left[0])


def collect(state):
    """the model legs of all stages of this run through ONE driver process; results are written into the
    stage records (the same dict objects that `stage` stored)"""
    todo = state.get("deferred") or []
    if todo:
        answers = common.run_driver([rq for _, rq in todo])
        for (out, _), a in zip(todo, answers):
            out["model_diffs"] = model_judge(out["summary"], a)
    state["deferred"] = []
    return {"model_cases": len(todo)}
