"""pipeline plugin of C18: observes the depth counter of the real generator and validates every
`generate_expr` call against the regenerated skeleton table (harness/regen_c18.py), and counts the
feasibility tests of the erasure search.

Per program it returns
  max_depth_seen        largest `self.depth` at a `generate_expr` entry that is not `gen_bottom`
  max_nesting           deepest nesting of `generate_expr` calls (Python recursion of the generator)
  max_pyframes          Python frame depth at that point
  calls / validated     `generate_expr` calls seen / matched to a flattened site of the table
  mismatches            [{kind, …}]  (first few) where the real call is NOT a transition of the model:
                        unknown-site, depth-below-offset, only-leaves, void, cut-not-applied, dispatch
  leaks                 calls entered above `entry depth + offset` (a callee left the counter raised)
  erasure               per function: {n0, n, first, tests, max_combinations}
  norise                recursive calls of a dispatched generator entered at a depth <= the depth of the enclosing
                        generate_expr call at a site that is not a listed same-depth site (needs table()["same"],
                        set by the check from the driver's `sameDepthSites`)
  max_wdepth            most raised-counter calls on a path since the root of the region (= `Shape.wdepth`
                        of the real call tree); `over` = calls where it exceeds `B sk m d_root`;
                        max_slack = max (wdepth - (cutK*m - d_root))  (the theorem says <= 4*maxCnt)
"""
import inspect
import sys

_TABLE = {}
SPEC_CUTK = 2


def table():
    if _TABLE:
        return _TABLE
    import regen_c18
    sk = regen_c18.build()
    sites, names = {}, set()
    for g in sk["gens"] + sk["roots"]:
        names.add(g["name"])
        for s in g["sites"]:
            sites[(s["path"], s["line"])] = s
    disp = [[a for a, _ in l] for _, l in sk["dispatch"]]
    allsites = [s for g in sk["gens"] + sk["roots"] for s in g["sites"]]
    _TABLE["maxCnt"] = max([s["cnt"] for s in allsites] + [0])
    _TABLE["cutK"] = max([s["cut"][1] for s in allsites if s["cut"] and s["cut"][0] == ">"] + [0])
    _TABLE["leafgens"] = {a for a in (disp[1] if len(disp) > 1 else []) if a in {g["name"] for g in sk["gens"]}}
    _TABLE.update(sites=sites, heads=names, gens={g["name"] for g in sk["gens"]},
                  wrap=[m["name"] for m in sk["raw"]], dispatch=disp, conds=[c for c, _ in sk["dispatch"]])
    return _TABLE


def install(state, spec):
    from src.generators.generator import Generator
    from src.generators.config import cfg
    tb = table()
    st = state.setdefault("depth", {})
    st.update(max_depth_seen=0, max_nesting=0, max_pyframes=0, calls=0, validated=0, bottoms=0, leaks=0,
              mismatches=[], mismatch_counts={}, site_hits={}, dispatch_checked=0, erasure=[], orig={},
              max_wdepth=0, max_slack=-10**6, over=[], norise=[], norise_count=0, uncut=[], uncut_count=0)
    stack = []          # (name, entry depth, only_leaves)
    nest = [0]

    def miss(kind, **kw):
        st["mismatch_counts"][kind] = st["mismatch_counts"].get(kind, 0) + 1
        if len(st["mismatches"]) < 5:
            st["mismatches"].append(dict(kind=kind, **kw))

    def wrap(name, fn):
        sig = inspect.signature(fn)
        has_ol = "only_leaves" in sig.parameters

        def bound_ol(args, kwargs):
            if not has_ol:
                return None
            try:
                ba = sig.bind(*args, **kwargs)
            except TypeError:
                return None
            p = sig.parameters["only_leaves"]
            return bool(ba.arguments.get("only_leaves", p.default))

        if name == "generate_expr":
            def w(self, *args, **kwargs):
                ba = sig.bind(self, *args, **kwargs)
                a = ba.arguments
                ol = bool(a.get("only_leaves", False))
                gb = bool(a.get("gen_bottom", False))
                et = a.get("expr_type")
                st["calls"] += 1
                d1 = self.depth
                m = cfg.limits.max_depth
                is_void = et is not None and et == self.bt_factory.get_void_type()
                # the flattened site: helper frames up to the nearest generator / root
                path = []
                head = None
                cand = None         # `gen_variable_decl`: a region root when called from the top level,
                outer = None        # a helper of `gen_assignment` otherwise
                for e in reversed(stack):
                    nm, d0, ol0 = e[0], e[1], e[2]
                    if nm == "generate_expr":
                        outer = e
                        break
                    path.append(nm)
                    head = (nm, d0, ol0)
                    if nm in tb["heads"]:
                        if nm != "gen_variable_decl":
                            break
                        cand = (len(path), head)
                if head is not None and head[0] not in tb["heads"] and cand is not None:
                    path, head = path[:cand[0]], cand[1]
                if head is not None and head[0] in tb["gens"] and outer is None:
                    for e in reversed(stack):
                        if e[0] == "generate_expr":
                            outer = e
                            break
                line = sys._getframe(1).f_lineno
                cum, droot = 0, d1
                if head is not None:
                    key = (">".join(reversed(path)), line)
                    s = tb["sites"].get(key)
                    if s is None:
                        miss("unknown-site", site=list(key))
                    else:
                        st["validated"] += 1
                        st["site_hits"][key[0] + "@" + str(line)] = st["site_hits"].get(key[0] + "@" + str(line), 0) + 1
                        if d1 < head[1] + s["off"]:
                            miss("depth-below-offset", site=list(key), entry=head[1], off=s["off"], depth=d1)
                        elif d1 > head[1] + s["off"]:
                            st["leaks"] += 1
                        want = ol if s["ol"] == "pass" and head[2] is None else \
                            (head[2] if s["ol"] == "pass" else s["ol"] == "True")
                        if want != ol:
                            miss("only-leaves", site=list(key), table=s["ol"], entry=head[2], actual=ol)
                        if not gb and ((s["void"] == "no" and is_void) or (s["void"] == "yes" and not is_void)):
                            miss("void", site=list(key), table=s["void"], actual=is_void)
                        if s["cut"] and s["cut"][0] == ">" and d1 > s["cut"][1] * m and not gb:
                            prim = et is not None and getattr(et, "is_primitive", lambda: False)()
                            if not prim:
                                miss("cut-not-applied", site=list(key), depth=d1, max_depth=m)
                        # specification side, independent of the offsets of the table: a recursive call made by a
                        # dispatched generator is entered ABOVE the depth of the enclosing generate_expr call,
                        # except at the listed same-depth sites (`sameDepthSites` of Model/Depth.lean)
                        if head[0] in tb["gens"] and outer is not None and not gb and d1 <= outer[1] \
                                and (key[0], s["targ"], s["ol"]) not in tb.get("same", ()):
                            st["norise_count"] += 1
                            if len(st["norise"]) < 3:
                                st["norise"].append({"site": list(key), "type_argument": s["targ"], "only_leaves": s["ol"],
                                                     "outer_depth": outer[1], "depth": d1})
                        # … and the raised-counter recursion of a LEAF generator (the leaf branch of
                        # get_generators: gen_new into the fields of the class) is cut to the bottom constant /
                        # primitive values above SPEC_CUTK * max_depth (the constant the claimed bound uses)
                        if head[0] in tb["leafgens"] and s["cnt"] > 0 and not gb and d1 > SPEC_CUTK * m \
                                and not (et is not None and getattr(et, "is_primitive", lambda: False)()):
                            st["uncut_count"] += 1
                            if len(st["uncut"]) < 3:
                                st["uncut"].append({"site": list(key), "depth": d1, "max_depth": m})
                        # raised-counter calls since the root of the region (the real counterpart of `wdepth`)
                        if head[0] in tb["gens"] and outer is not None:
                            cum, droot = outer[5] + s["cnt"], outer[6]
                        else:
                            cum, droot = s["cnt"], head[1]
                        if not gb:
                            if cum > st["max_wdepth"]:
                                st["max_wdepth"] = cum
                            slack = cum - max(0, tb["cutK"] * m - droot)
                            if slack > st["max_slack"]:
                                st["max_slack"] = slack
                            if cum > max(0, tb["cutK"] * m - droot) + 4 * tb["maxCnt"] and len(st["over"]) < 3:
                                st["over"].append({"site": list(key), "wdepth": cum, "root_depth": droot,
                                                   "depth": d1, "max_depth": m})
                if gb:
                    st["bottoms"] += 1
                    return fn(self, *args, **kwargs)
                if d1 > st["max_depth_seen"]:
                    st["max_depth_seen"] = d1
                nest[0] += 1
                if nest[0] > st["max_nesting"]:
                    st["max_nesting"] = nest[0]
                    f, n = sys._getframe(0), 0
                    while f is not None:
                        n += 1
                        f = f.f_back
                    st["max_pyframes"] = max(st["max_pyframes"], n)
                stack.append(("generate_expr", d1, ol, is_void, et is None, cum, droot))
                try:
                    return fn(self, *args, **kwargs)
                finally:
                    stack.pop()
                    nest[0] -= 1
            return w

        def w(self, *args, **kwargs):
            if name in tb["gens"] and stack and stack[-1][0] == "generate_expr" and not stack[-1][4]:
                _, d, ol, v = stack[-1][:4]
                m = cfg.limits.max_depth
                br = 0 if v else (1 if (d >= m or ol) else 2)
                st["dispatch_checked"] += 1
                if name not in tb["dispatch"][br]:
                    miss("dispatch", generator=name, depth=d, only_leaves=ol, void=v, branch=br)
            stack.append((name, self.depth, bound_ol((self,) + args, kwargs)))
            try:
                return fn(self, *args, **kwargs)
            finally:
                stack.pop()
        return w

    for name in tb["wrap"]:
        fn = Generator.__dict__.get(name)
        if fn is None:
            continue
        st["orig"][name] = fn
        setattr(Generator, name, wrap(name, fn))

    # ---- erasure search --------------------------------------------------------------------
    from src.analysis import type_dependency_analysis as tda
    from src.transformations import type_erasure as te
    orig_feas = tda.is_combination_feasible
    orig_visit = te.TypeErasure.visit_func_decl
    cur = []

    def feas(graph, combination):
        r = orig_feas(graph, combination)
        if cur:
            cur[-1].append((len(combination), bool(r)))
        return r

    def visit(self, node):
        cur.append([])
        complete = False
        try:
            r = orig_visit(self, node)
            complete = True
            return r
        finally:
            calls = cur.pop()
            # `complete` = the search of this function ran to its end (not interrupted by the wall-clock
            # cut-off of the harness or by an exception): only complete searches are compared with the model
            st["erasure"].append({"calls": calls if len(calls) <= 64 else calls[:64], "tests": len(calls),
                                  "summary": _summarise(calls), "max_combinations": self.max_combinations,
                                  "complete": complete})
    tda.is_combination_feasible = feas
    te.TypeErasure.visit_func_decl = visit
    st["orig_erasure"] = (tda, orig_feas, te, orig_visit)


def _summarise(calls):
    """(n0, n, first feasible index in the loop | None) from the sequence of (size, result)"""
    T = len(calls)
    k = 0
    while k < T and calls[k][0] == 1:
        k += 1
    if k < T:
        n0 = k
    else:
        n0 = T if not any(r for _, r in calls) else T - 1
    n = sum(1 for _, r in calls[:n0] if r)
    first = None
    for i, (_, r) in enumerate(calls[n0:]):
        if r:
            first = i
            break
    sizes = [s for s, _ in calls[n0:]]
    return {"n0": n0, "n": n, "first": first, "sizes_descend": all(a >= b for a, b in zip(sizes, sizes[1:])),
            "first_size": sizes[0] if sizes else None}


def stage(state, name, program, stage_dict):
    """keeps the IPC small: only the 'gen' export travels to the parent; translations are replaced by
    their lengths (the check needs only that they completed)"""
    if name != "gen":
        stage_dict.pop("export", None)
    if "texts" in stage_dict:
        stage_dict["texts"] = {k: len(v) for k, v in stage_dict["texts"].items()}


def collect(state):
    st = state.get("depth", {})
    return {k: v for k, v in st.items() if k not in ("orig", "orig_erasure")}


def uninstall(state):
    st = state.get("depth", {})
    from src.generators.generator import Generator
    for name, fn in st.get("orig", {}).items():
        setattr(Generator, name, fn)
    if "orig_erasure" in st:
        tda, f, te, v = st["orig_erasure"]
        tda.is_combination_feasible = f
        te.TypeErasure.visit_func_decl = v
