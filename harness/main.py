"""./check <Cxx> [--tier quick|thorough] [--seed N] [--replay FILE]"""
import argparse
import importlib
import json
import os
import sys
import traceback

sys.path.insert(0, os.path.dirname(os.path.abspath(__file__)))
import common  # noqa: E402


def main():
    ap = argparse.ArgumentParser()
    ap.add_argument("prop")
    ap.add_argument("--tier", default=os.environ.get("VERIF_TIER", "quick"), choices=["quick", "thorough"])
    ap.add_argument("--seed", type=int, default=int(os.environ.get("VERIF_SEED", "0")))
    ap.add_argument("--replay", default=None)
    a = ap.parse_args()
    try:
        mod = importlib.import_module("check_" + a.prop)
    except ModuleNotFoundError as e:
        print("no check for", a.prop, e)
        return 2
    run = common.Run(a.prop, a.tier, a.seed, level=getattr(mod, "LEVEL", "proof"))
    try:
        if a.replay:
            replay = json.load(open(a.replay))
            mod.replay(run, replay)
        else:
            mod.check(run)
        return run.finish()
    except common.HarnessError as e:
        print("HARNESS ERROR:", e, flush=True)
        return 2
    except Exception:
        traceback.print_exc()
        print("HARNESS ERROR (unexpected exception)", flush=True)
        return 2


if __name__ == "__main__":
    sys.exit(main())
