"""Generic exporter of a live Python object graph into the heap JSON of lean/Driver/Pickle.lean, and
canonicalisation of a real pickle's op-code stream to the model's op alphabet (property C13).

The exporter follows what CPython's C pickler (protocol 4) does to decide *how* an object is
written — it does not look at any pickle:

 * None, bool, exact int, exact float, the empty tuple: immediates (the pickler never memoises them);
 * exact str / tuple / list / dict / set / frozenset: by the container protocol (sets in iteration order);
 * classes and functions: a global (module, qualified name) — the two strings are the objects
   `obj.__module__` / `obj.__qualname__` (the pickler `save`s exactly these, so their identity counts);
 * anything else: `copyreg.dispatch_table` / `obj.__reduce_ex__(4)`; the shapes that occur are
   `copyreg.__newobj__(cls)` + state (→ NEWOBJ … BUILD) and `callable()` + dictitems + state
   (OrderedDict → REDUCE … SETITEMS).  Any other shape raises `Unsupported` (the check then stops: the
   model would have to be extended).

Objects are identified by `id`; every visited object (and every reduction value) is kept alive until
the export is done, so ids stay unique."""
import copyreg
import pickletools
import types

PROTO = 4


class Unsupported(Exception):
    pass


class HeapExporter:
    def __init__(self):
        self.ids = {}
        self.objs = []
        self.keep = []
        self.work = []
        self.kinds = {}
        self.incoherent = []      # dict keys mutated after insertion: equal to another key NOW, or under a stale hash

    def val(self, o):
        if o is None or o is True or o is False:
            return o
        t = type(o)
        if t is int:
            return {"i": o}
        if t is float:
            return {"f": repr(o)}
        if t is tuple and len(o) == 0:
            return "u"
        a = self.ids.get(id(o))
        if a is None:
            a = len(self.objs)
            self.ids[id(o)] = a
            self.objs.append(None)
            self.keep.append(o)
            self.work.append((a, o))
        return a

    def tally(self, k):
        self.kinds[k] = self.kinds.get(k, 0) + 1

    def obj(self, o):
        t = type(o)
        V = self.val
        if t is str:
            self.tally("str")
            return ["s", o]
        if t is tuple:
            self.tally("tuple")
            return ["t", [V(x) for x in o]]
        if t is list:
            self.tally("list")
            return ["l", [V(x) for x in o]]
        if t is dict:
            self.tally("dict")
            self.coherent(o)
            return ["d", [[V(k), V(v)] for k, v in o.items()]]
        if t is set:
            self.tally("set")
            return ["S", [V(x) for x in o]]
        if t is frozenset:
            self.tally("frozenset")
            return ["F", [V(x) for x in o]]
        if t in (bytes, bytearray):
            raise Unsupported("bytes object")
        if isinstance(o, type) or t in (types.FunctionType, types.BuiltinFunctionType):
            self.tally("global")
            return ["g", V(o.__module__), V(o.__qualname__)]
        red = copyreg.dispatch_table.get(t)
        rv = red(o) if red is not None else o.__reduce_ex__(PROTO)
        self.keep.append(rv)
        if isinstance(rv, str):
            raise Unsupported("reduction to a global name: %s" % t.__name__)
        if not isinstance(rv, tuple) or not 2 <= len(rv) <= 6:
            raise Unsupported("bad reduction value of %s" % t.__name__)
        func, args = rv[0], rv[1]
        state = rv[2] if len(rv) > 2 else None
        listitems = rv[3] if len(rv) > 3 else None
        dictitems = rv[4] if len(rv) > 4 else None
        setter = rv[5] if len(rv) > 5 else None
        if setter is not None or listitems is not None:
            raise Unsupported("reduction with listitems/state_setter: %s" % t.__name__)
        if getattr(func, "__name__", "") == "__newobj__":
            cls = args[0]
            if len(args) != 1 or dictitems is not None:
                raise Unsupported("__newobj__ with arguments or dictitems: %s" % t.__name__)
            self.tally("inst" if state is not None else "inst-without-state")
            self.tally("class:%s.%s" % (cls.__module__, cls.__qualname__))
            return ["o", V(cls)] if state is None else ["o", V(cls), V(state)]
        if len(args) != 0:
            raise Unsupported("REDUCE with arguments: %s" % t.__name__)
        items = list(dictitems) if dictitems is not None else []
        self.keep.append(items)
        self.tally("reduced:%s.%s" % (getattr(func, "__module__", "?"), getattr(func, "__qualname__", "?")))
        kvs = [[V(k), V(v)] for k, v in items]
        return ["r", V(func), kvs] if state is None else ["r", V(func), kvs, V(state)]

    def coherent(self, d):
        """re-insert the keys one by one (what SETITEMS does on load): equal keys collapse"""
        try:
            fresh = {}
            for k in d:
                if k in fresh:
                    self.incoherent.append({"size": len(d), "key_class": type(k).__name__, "key": str(k)[:40],
                                            "what": "equal to an earlier key"})
                elif k not in d:
                    self.incoherent.append({"size": len(d), "key_class": type(k).__name__, "key": str(k)[:40],
                                            "what": "stored under a stale hash (look-up of the key fails)"})
                fresh[k] = 1
        except Exception as e:  # noqa: BLE001  an unhashable key now: also incoherent
            self.incoherent.append({"size": len(d), "error": type(e).__name__})

    def export(self, root):
        r = self.val(root)
        while self.work:
            a, o = self.work.pop()
            self.objs[a] = self.obj(o)
        return {"objs": self.objs, "root": r}


def export_heap(root, with_kinds=False):
    e = HeapExporter()
    h = e.export(root)
    if with_kinds:
        e.kinds["__incoherent__"] = e.incoherent
        return h, e.kinds
    return h


# ------------------------------------------------------------------ op-codes of a real pickle
_SIMPLE = {
    "NONE": "N", "NEWTRUE": "T", "NEWFALSE": "F", "MARK": "(", "TUPLE": "tm", "EMPTY_LIST": "]", "APPEND": "a",
    "APPENDS": "e", "EMPTY_DICT": "}", "SETITEM": "s", "SETITEMS": "u", "EMPTY_SET": "set", "ADDITEMS": "add",
    "FROZENSET": "fz", "STACK_GLOBAL": "sg", "NEWOBJ": "new", "REDUCE": "R", "BUILD": "b", "POP": "0",
    "POP_MARK": "1", "STOP": ".", "MEMOIZE": "m", "BINPUT": "m", "LONG_BINPUT": "m",
}
_TUPLES = {"EMPTY_TUPLE": 0, "TUPLE1": 1, "TUPLE2": 2, "TUPLE3": 3}


def ops_of_pickle(data, tally=None):
    """the op-code stream of a pickle in the model's alphabet (PROTO / FRAME dropped; encodings of
    integers and strings collapsed).  An op-code outside the modelled subset raises Unsupported."""
    out = []
    nmemo = 0
    for op, arg, _pos in pickletools.genops(data):
        n = op.name
        if tally is not None:
            tally[n] = tally.get(n, 0) + 1
        if n in ("PROTO", "FRAME"):
            continue
        if n in ("BINPUT", "LONG_BINPUT"):
            if arg != nmemo:
                raise Unsupported("BINPUT index %r is not the memo size %d" % (arg, nmemo))
        if n in ("MEMOIZE", "BINPUT", "LONG_BINPUT"):
            nmemo += 1
        if n in _SIMPLE:
            out.append(_SIMPLE[n])
        elif n in _TUPLES:
            out.append(["t", _TUPLES[n]])
        elif n in ("BININT", "BININT1", "BININT2", "LONG1", "LONG4"):
            out.append(["I", int(arg)])
        elif n == "BINFLOAT":
            out.append(["D", repr(arg)])
        elif n in ("SHORT_BINUNICODE", "BINUNICODE", "BINUNICODE8"):
            out.append(["U", arg])
        elif n in ("BINGET", "LONG_BINGET"):
            out.append(["g", int(arg)])
        else:
            raise Unsupported("op-code %s is outside the modelled subset" % n)
    return out


# ------------------------------------------------------------------ an independent isomorphism checker
def iso(h1, h2):
    """Python reference of `isoCheck`: simultaneous traversal, order-preserving, bijective on addresses.
    Returns None if isomorphic, else a description of the first mismatch."""
    fwd, bwd = {}, {}
    work = [(h1["root"], h2["root"], "root")]
    o1, o2 = h1["objs"], h2["objs"]
    while work:
        a, b, path = work.pop()
        ia = isinstance(a, int) and not isinstance(a, bool)
        ib = isinstance(b, int) and not isinstance(b, bool)
        if ia != ib:
            return "%s: address vs immediate" % path
        if not ia:
            if a != b or type(a) is not type(b):
                return "%s: immediates %r / %r" % (path, a, b)
            continue
        if a in fwd or b in bwd:
            if fwd.get(a) != b or bwd.get(b) != a:
                return "%s: sharing differs (address %d ~ %r, %d ~ %r)" % (path, a, fwd.get(a), b, bwd.get(b))
            continue
        fwd[a] = b
        bwd[b] = a
        x, y = o1[a], o2[b]
        if x[0] != y[0] or len(x) != len(y):
            return "%s: kinds %s / %s" % (path, x[:1] + [len(x)], y[:1] + [len(y)])
        k = x[0]
        if k == "s":
            if x[1] != y[1]:
                return "%s: strings %r / %r" % (path, x[1], y[1])
        elif k in ("t", "l", "S", "F"):
            if len(x[1]) != len(y[1]):
                return "%s: lengths %d / %d" % (path, len(x[1]), len(y[1]))
            for i, (u, v) in enumerate(zip(x[1], y[1])):
                work.append((u, v, "%s[%d]" % (path, i)))
        elif k == "d":
            if len(x[1]) != len(y[1]):
                return "%s: dict sizes %d / %d" % (path, len(x[1]), len(y[1]))
            for i, (p, q) in enumerate(zip(x[1], y[1])):
                work.append((p[0], q[0], "%s.key%d" % (path, i)))
                work.append((p[1], q[1], "%s.val%d" % (path, i)))
        elif k == "g":
            work.append((x[1], y[1], path + ".module"))
            work.append((x[2], y[2], path + ".qualname"))
        elif k == "o":
            work.append((x[1], y[1], path + ".cls"))
            if len(x) == 3:
                work.append((x[2], y[2], path + ".state"))
        elif k == "r":
            work.append((x[1], y[1], path + ".callee"))
            if len(x[2]) != len(y[2]):
                return "%s: dictitems %d / %d" % (path, len(x[2]), len(y[2]))
            for i, (p, q) in enumerate(zip(x[2], y[2])):
                work.append((p[0], q[0], "%s.key%d" % (path, i)))
                work.append((p[1], q[1], "%s.val%d" % (path, i)))
            if len(x) == 4:
                work.append((x[3], y[3], path + ".state"))
        else:
            return "%s: unknown kind %r" % (path, k)
    return None
