"""C09 machinery shared by check_C09 and the pipeline plugin plug_find.

`Instrument` wraps the module globals of `src.ir.type_utils` that the searches go through
(`_find_types`, `_construct_related_types`, `to_type`, `find_subtypes`, `find_supertypes`,
`find_irrelevant_type`) plus `utils.random.choice`, as pure pass-throughs that record, per
invocation (nested ones included), a *frame*:

 find frame       etype, types, get_subtypes, include_self, bound, concrete_only, the value the
                  randomised `_construct_related_types` returned to THIS invocation, the set before
                  `to_type` (inputs of the `to_type` calls of this invocation), the result / exception
 irrelevant frame etype, types, the two lists `find_supertypes` / `find_subtypes` returned to THIS
                  invocation, the list handed to `random.choice` right after (= `available_types`),
                  the result / exception

No extra call of the real code is made, so the random stream of a generator run is unchanged.
`requests_of_find` / `requests_of_irrelevant` turn frames into driver requests:

 find.types      exact: model `findTypes` (with the recorded related type) == the set before to_type
 find.check      refinement: the Lean checker `subtypesOK` on the returned list (top-level frames)
 find.avail      exact: model `availTypes` == recorded `available_types`
 find.irrelevant refinement: the Lean checker `irrelevantOK` on the answer
"""
import common
from common import canon
import export
from export import kind
import refsub

SIG_SUB = "find_types:"
SIG_IRR = "find_irrelevant_type:"

CAP = 3000


def _ty(c):
    return c.get_type() if hasattr(c, "get_type") else c


class Instrument:
    def __init__(self, cap=CAP):
        self.cap = cap
        self.frames = []          # finished frames, in completion order
        self.stack = []           # open frames
        self.orig = {}
        self.calls = {"find": 0, "irrelevant": 0}

    # ---- installation ------------------------------------------------------------------------
    def install(self):
        import src.ir.type_utils as tu
        from src import utils
        self.tu, self.utils = tu, utils
        for n in ("_find_types", "_construct_related_types", "to_type", "find_subtypes", "find_supertypes",
                  "find_irrelevant_type"):
            self.orig[n] = getattr(tu, n)
        o = self.orig
        me = self

        def w_find_types(etype, types, get_subtypes, include_self, bound=None, concrete_only=False,
                         ignore_variance=False):
            me.calls["find"] += 1
            fr = {"kind": "find", "depth": len(me.stack), "etype": etype, "types": list(types),
                  "get_subtypes": bool(get_subtypes), "include_self": bool(include_self), "bound": bound,
                  "concrete_only": bool(concrete_only), "ignore_variance": bool(ignore_variance),
                  "related": [], "to_type": []}
            me.stack.append(fr)
            try:
                r = o["_find_types"](etype, types, get_subtypes, include_self, bound, concrete_only, ignore_variance)
                fr["result"] = list(r)
                return r
            except Exception as e:
                fr["exception"] = type(e).__name__
                raise
            finally:
                me.stack.pop()
                me._keep(fr)

        def w_related(etype, types, get_subtypes, ignore_variance=False):
            fr = me.stack[-1] if me.stack else None
            try:
                r = o["_construct_related_types"](etype, types, get_subtypes, ignore_variance=ignore_variance)
            except Exception as e:
                if fr is not None and fr["kind"] == "find":
                    fr["related_exc"] = type(e).__name__
                raise
            if fr is not None and fr["kind"] == "find":
                fr["related"].append(r)
            return r

        def w_to_type(stype, types):
            fr = me.stack[-1] if me.stack else None
            r = o["to_type"](stype, types)
            if fr is not None and fr["kind"] == "find":
                fr["to_type"].append((stype, r))
            return r

        def w_find_subtypes(etype, types, include_self=False, bound=None, concrete_only=False,
                            ignore_variance=False):
            fr = me.stack[-1] if me.stack else None
            r = o["find_subtypes"](etype, types, include_self, bound, concrete_only, ignore_variance)
            if fr is not None and fr["kind"] == "irrelevant" and "subs" not in fr:
                fr["subs"] = list(r)
                fr["armed"] = True
            return r

        def w_find_supertypes(etype, types, include_self=False, bound=None, concrete_only=False):
            fr = me.stack[-1] if me.stack else None
            r = o["find_supertypes"](etype, types, include_self, bound, concrete_only)
            if fr is not None and fr["kind"] == "irrelevant" and "sups" not in fr:
                fr["sups"] = list(r)
            return r

        def w_irrelevant(etype, types, factory):
            me.calls["irrelevant"] += 1
            fr = {"kind": "irrelevant", "depth": len(me.stack), "etype": etype, "types": [_ty(t) for t in types],
                  "factory": factory}
            me.stack.append(fr)
            try:
                r = o["find_irrelevant_type"](etype, types, factory)
                fr["result"] = r
                return r
            except Exception as e:
                fr["exception"] = type(e).__name__
                raise
            finally:
                me.stack.pop()
                fr.pop("armed", None)
                me._keep(fr)

        tu._find_types = w_find_types
        tu._construct_related_types = w_related
        tu.to_type = w_to_type
        tu.find_subtypes = w_find_subtypes
        tu.find_supertypes = w_find_supertypes
        tu.find_irrelevant_type = w_irrelevant
        self._choice_was_attr = "choice" in utils.random.__dict__
        self._choice_prev = utils.random.__dict__.get("choice")
        inner = utils.random.choice

        def w_choice(choices):
            fr = me.stack[-1] if me.stack else None
            if fr is not None and fr["kind"] == "irrelevant" and fr.get("armed"):
                fr["armed"] = False
                fr["available"] = list(choices)
            return inner(choices)
        utils.random.choice = w_choice
        return self

    def uninstall(self):
        for n, f in self.orig.items():
            setattr(self.tu, n, f)
        self.orig = {}
        if getattr(self, "utils", None) is not None:
            if self._choice_was_attr:
                self.utils.random.choice = self._choice_prev
            else:
                self.utils.random.__dict__.pop("choice", None)

    def __enter__(self):
        return self.install()

    def __exit__(self, *a):
        self.uninstall()

    def _keep(self, fr):
        if "result" not in fr and "exception" not in fr:
            return      # aborted by the wall-clock cut-off of the pipeline (a BaseException): not a frame
        if len(self.frames) < self.cap:
            self.frames.append(fr)

    def take(self):
        fs, self.frames = self.frames, []
        return fs


# ---- requests -------------------------------------------------------------------------------------
def boxes_of(factory):
    """the table `B` of the decider: the non-primitive built-ins of the language"""
    return [t for t in factory.get_non_nothing_types()
            if kind(t) == "b" and not getattr(t, "primitive", False)]


def requests_of_find(fr, boxes):
    """(request, implementation answer, meta) list of one find frame"""
    out = []
    tt = export.TypeTable()
    types = [_ty(c) for c in fr["types"]]
    base = {"etype": tt.add(fr["etype"]), "types": [tt.add(t) for t in types],
            "get_subtypes": fr["get_subtypes"], "include_self": fr["include_self"],
            "bound": tt.add(fr["bound"]) if fr["bound"] is not None else None}
    related = fr["related"][0] if fr["related"] else None
    if "exception" in fr:
        pre, impl = None, fr["exception"]
    elif fr["concrete_only"]:
        pre, impl = [p for p, _ in fr["to_type"]], True
    else:
        pre, impl = fr["result"], True
    rq = dict(base, op="find.types", related=tt.add(related) if related is not None else None)
    if pre is not None:
        rq["expect"] = [tt.add(t) for t in pre]
    rq["tt"] = tt.entries
    if "related_exc" not in fr:
        # (an exception inside the randomised `_construct_related_types` is outside the model: counted)
        out.append((rq, impl, {"what": "exact", "frame": fr}))
    if "result" in fr and fr["depth"] == 0:
        tt2 = export.TypeTable()
        rq2 = {"op": "find.check", "etype": tt2.add(fr["etype"]), "B": [tt2.add(b) for b in boxes],
               "get_subtypes": fr["get_subtypes"], "include_self": fr["include_self"],
               "concrete_only": fr["concrete_only"],
               "bound": tt2.add(fr["bound"]) if fr["bound"] is not None else None,
               "results": [tt2.add(t) for t in fr["result"]]}
        rq2["tt"] = tt2.entries
        out.append((rq2, True, {"what": "refine", "frame": fr}))
    return out


VARIANT = {"v": None}     # which find_irrelevant_type the tree implements ("asIs" / "repaired"), set by the check


def effective_etype(etype, anyt):
    """the type find_irrelevant_type works with after its preamble"""
    t = irrelevant_target(etype, anyt)
    if VARIANT["v"] == "repaired" and kind(t) == "b" and getattr(t, "primitive", False) and hasattr(t, "box_type"):
        t = t.box_type()
    return t


def requests_of_irrelevant(fr):
    out = []
    fac = fr["factory"]
    boxes = boxes_of(fac)
    anyt = fac.get_any_type()
    if "sups" in fr and "subs" in fr and "exception" not in fr:
        tt = export.TypeTable()
        rq = {"op": "find.avail", "types": [tt.add(t) for t in fr["types"]],
              "relevant": [tt.add(t) for t in fr["sups"] + fr["subs"]],
              "expect": [tt.add(t) for t in fr.get("available", [])],
              "any": tt.add(anyt), "etype": tt.add(effective_etype(fr["etype"], anyt))}
        if VARIANT["v"] in ("asIs", "repaired"):
            rq["variant"] = VARIANT["v"]
        rq["tt"] = tt.entries
        out.append((rq, True, {"what": "exact-avail", "frame": fr}))
    if "exception" not in fr:
        tt2 = export.TypeTable()
        rq2 = {"op": "find.irrelevant", "etype": tt2.add(fr["etype"]), "any": tt2.add(anyt),
               "B": [tt2.add(b) for b in boxes],
               "result": tt2.add(fr["result"]) if fr["result"] is not None else None}
        rq2["tt"] = tt2.entries
        out.append((rq2, True, {"what": "refine-irrelevant", "frame": fr}))
    return out


# ---- well-bounded instantiations ---------------------------------------------------------------------
def query_ok(t):
    """is the query inside the domain the property speaks about: a well-formed type (projections agree with
    declaration-site variance, …) whose instantiations respect the declared bounds"""
    try:
        return (kind(t) == "w" or refsub.well_formed(t)) and well_bounded(t)
    except Exception:
        return False


def well_bounded(t, depth=0):
    """every instantiation inside `t` keeps its arguments within the declared bounds of its
    constructor's parameters (judged by the independent reference decider)"""
    import src.ir.types as tp
    k = kind(t)
    if depth > 6:
        return True
    if k == "w":
        return t.bound is None or well_bounded(t.bound, depth + 1)
    if k != "p":
        return True
    ps = list(t.t_constructor.type_parameters)
    args = list(t.type_args)
    m = {p: a for p, a in zip(ps, args)}
    for p, a in zip(ps, args):
        if not well_bounded(a, depth + 1):
            return False
        if p.bound is None:
            continue
        if kind(a) == "w":
            if a.bound is None or not a.is_covariant():
                continue
            a = a.bound
        try:
            b = tp.substitute_type(p.bound, m)
        except Exception:
            return False
        if kind(b) == "w":
            if b.bound is None:
                return False
            b = b.bound
        try:
            if not (a == b or refsub.sub(a, b)):
                return False
        except Exception:
            return False
    return True


# ---- shapes (signatures of findings are shapes, never seeds) -------------------------------------------
def _con_name(t):
    return str(t.name) if kind(t) in ("p", "c", "s", "b") else None


def _nominally_below(con, name):
    """does the class of `con` (a constructor or class) have a supertype named `name`?"""
    try:
        return any(str(getattr(s, "name", "")) == name and s is not con for s in con.get_supertypes())
    except Exception:
        return False


def irrelevant_target(etype, anyt):
    if kind(etype) == "v" and etype.bound is not None and not (etype.bound == anyt):
        return etype.bound
    return etype


def irrelevant_shape(etype, result, ans, anyt):
    """stable shape of a rejected answer of find_irrelevant_type"""
    tgt = irrelevant_target(etype, anyt)
    if ans.get("top"):
        return "answer-for-top-type"
    if ans.get("tcon"):
        return "bare-constructor-returned"
    direction = "subtype" if ans.get("sub") else "supertype"
    kt, kr = kind(tgt), kind(result)
    if direction == "supertype" and result == anyt:
        return "supertype:top-type-returned"
    if direction == "supertype" and kt == "b" and getattr(tgt, "primitive", False) and kr == "b":
        return "supertype:supertype-of-the-box-of-a-primitive"
    if kr == "p" and kt == "p" and result.t_constructor == tgt.t_constructor:
        if any(kind(a) == "w" for a in tgt.type_args):
            return "%s:same-constructor/projected-query" % direction
        return "%s:same-constructor" % direction
    if kr == "p" and direction == "subtype" and _nominally_below(result.t_constructor, _con_name(tgt)):
        return "subtype:generic-subclass-of-%s-target" % ("parameterized" if kt == "p" else "plain")
    if kt == "p" and direction == "supertype" and kr == "p" and _nominally_below(tgt.t_constructor, _con_name(result)):
        return "supertype:generic-superclass-of-parameterized-target"
    if kind(etype) == "v":
        return "%s:type-variable-query/%s" % (direction, kr)
    return "%s:other/%s-for-%s" % (direction, kr, kt)


def subtype_shape(fr, r):
    """stable shape of a returned type the checker does not accept"""
    e = fr["etype"]
    same = kind(e) == "p" and kind(r) == "p" and r.t_constructor == e.t_constructor
    via = "related" if any(r is x or r == x for x in fr["related"]) else "nominal"

    def has(t, k):
        found = [False]

        def walk(x):
            if kind(x) == k:
                found[0] = True
            if kind(x) == "p":
                for a in x.type_args:
                    walk(a)
            elif kind(x) in ("w", "v") and x.bound is not None and kind(x) == "w":
                walk(x.bound)
        walk(t)
        return found[0]
    feats = []

    def argkind(a):
        if kind(a) != "w":
            return "bare"
        return "star" if a.bound is None else ("out" if a.is_covariant() else "in" if a.is_contravariant() else "inv")
    if same and via == "related":
        # which positions were changed, and how (query argument -> returned argument)
        # (only positions whose new argument is not contained in the query's, by the reference decider;
        #  direction: subtype search r <= e, supertype search e <= r)
        def offending(p, a, b):
            try:
                return not (refsub.contained(b, a, p, 0) if fr["get_subtypes"] else refsub.contained(a, b, p, 0))
            except Exception:
                return True
        allmoves = [("%s-to-%s" % (argkind(a), argkind(b)), offending(p, a, b))
                    for p, a, b in zip(e.t_constructor.type_parameters, e.type_args, r.type_args) if not (a == b)]
        moves = sorted({m for m, bad in allmoves if bad}) or sorted({m for m, _ in allmoves})
        ps0 = list(e.t_constructor.type_parameters)
        if not any(p.bound is not None and p.bound.has_type_variables() for p in ps0):
            return "%s/related/samecon/%s" % ("sub" if fr["get_subtypes"] else "super", "+".join(moves) or "none")
    if kind(e) == "p":
        ps = list(e.t_constructor.type_parameters)
        if any(p.bound is not None and p.bound.has_type_variables() for p in ps):
            feats.append("bound-mentions-parameter")
    if feats:
        pass
    elif has(e, "w") or has(r, "w"):
        feats.append("wildcard")
    if "bound-mentions-parameter" not in feats and (has(e, "v") or has(r, "v")):
        feats.append("typevar")
    return "%s/%s/%s%s" % ("sub" if fr["get_subtypes"] else "super", via,
                           "samecon" if same else "%s-for-%s" % (kind(r), kind(e)),
                           ("/" + "+".join(feats)) if feats else "")


# ---- evaluation of frames ------------------------------------------------------------------------------
def eval_frames(run, frames, label, boxes_by_frame=None, origin=None):
    """turn frames into requests, run the model, compare / judge.  Returns statistics."""
    rqs, impl, meta = [], [], []
    for fr in frames:
        if fr["kind"] == "find":
            boxes = fr.get("boxes") or []
            items = requests_of_find(fr, boxes)
        else:
            items = requests_of_irrelevant(fr)
        for rq, ia, m in items:
            rqs.append(rq)
            impl.append(ia)
            meta.append(m)
    st = {"frames": len(frames), "requests": len(rqs), "exact_diffs": 0, "rejected": 0, "returned_types": 0}
    if not rqs:
        return st
    answers = common.run_driver(rqs)
    first_diff = None
    n0 = len(run.violations)
    avail_diffs = []
    for rq, ia, m, a in zip(rqs, impl, meta, answers):
        if "error" in a:
            raise common.HarnessError("%s: driver error on %s: %s" % (label, canon(rq)[:300], a["error"]))
        ans = a.get("r")
        fr = m["frame"]
        op = rq["op"]
        run.tally("ops", op)
        run.cov["traces_validated_against_impl"] += 1
        if op in ("find.types", "find.avail"):
            nt = bool(rq.get("expect"))
            run.count({"request": rq, "answer": ia}, nontrivial=nt)
            if ans != ia:
                st["exact_diffs"] += 1
                if first_diff is None:
                    first_diff = (rq, ia, ans, fr)
                if op == "find.avail" and len(avail_diffs) < 40:
                    avail_diffs.append(fr)
            if op == "find.types":
                run.tally("find_frames", ("sub" if fr["get_subtypes"] else "super") +
                          ("/self" if fr["include_self"] else "") + ("/bound" if fr["bound"] is not None else "") +
                          ("/concrete" if fr["concrete_only"] else "") + ("/nested" if fr["depth"] else ""))
                if "exception" in fr:
                    run.tally("find_exceptions", fr["exception"])
                # the instantiations `to_type` drew: never a bare constructor, and of the right class
                for p, q in fr["to_type"]:
                    if kind(p) == "c" and not (kind(q) == "p" and q.t_constructor == p):
                        run.violation({"kind": "failing-input", "what": "to_type returned %s for the constructor %s"
                                       % (export.short(q), export.short(p)), "request": rq},
                                      signature=SIG_SUB + "to_type-not-an-instantiation")
        elif op == "find.check":
            n = len(rq["results"])
            st["returned_types"] += n
            run.count({"request": rq, "answer": True}, nontrivial=n > 0)
            run.tally("refine_find", "ok" if ans["ok"] else "rejected")
            if not query_ok(fr["etype"]):
                # the query is not a well-formed instantiation (an argument exceeds its declared bound):
                # the property promises nothing; counted
                run.tally("refine_find", "ill-bounded-query-skipped")
            elif not ans["ok"] and not fr["get_subtypes"]:
                # the property speaks about the subtype search and the irrelevant-type search only; the
                # supertype search (used by find_irrelevant_type to collect relevant types) is tallied
                for i in ans["bad"]:
                    run.tally("supertype_search_rejected_informational", subtype_shape(fr, fr["result"][i]))
            elif not ans["ok"]:
                st["rejected"] += 1
                report_find_rejection(run, rq, ans, fr, label, origin)
        elif op == "find.irrelevant":
            run.count({"request": rq, "answer": True}, nontrivial=fr.get("result") is not None)
            run.tally("refine_irrelevant", "ok" if ans["ok"] else "rejected")
            run.tally("irrelevant_answers", "None" if fr.get("result") is None else
                      ("early:" if ans["early"] else "") + kind(fr["result"]))
            if not ans["ok"] and not query_ok(fr["etype"]):
                run.tally("refine_irrelevant", "ill-bounded-query-skipped")
            elif not ans["ok"]:
                st["rejected"] += 1
                report_irrelevant_rejection(run, rq, ans, fr, label, origin)
    for fr in frames:
        if fr["kind"] == "irrelevant" and "exception" in fr:
            run.tally("irrelevant_exceptions", fr["exception"])
    if avail_diffs:
        search_related_candidates(run, avail_diffs, label, origin)
    if first_diff is not None:
        rq, ia, ans, fr = first_diff
        run.log("%s: %d exact requests differ; first: op=%s impl=%s model=%s"
                % (label, st["exact_diffs"], rq["op"], canon(ia)[:100], canon(ans)[:300]))
        # a failing input for a broken correspondence: does the implementation's own answer violate the
        # property?  (the refinement requests above have judged the same frames: rejected ones were reported)
        run.violation({"kind": "broken-correspondence", "correspondence": "%s vs Model/Find (%s)" % (rq["op"], label),
                       "etype": export.short(fr["etype"]), "request": rq, "implementation": ia, "model": ans,
                       "origin": origin},
                      signature=rq["op"] + ":model-differs", no_input=len(run.violations) == n0)
    return st


def search_related_candidates(run, frames, label, origin):
    """failing-input search for a broken `available_types` correspondence: a candidate the implementation keeps
    available although the declarative decider relates it to the query"""
    rqs, meta = [], []
    for fr in frames:
        fac = fr["factory"]
        anyt = fac.get_any_type()
        tgt = effective_etype(fr["etype"], anyt)
        boxes = boxes_of(fac)
        for c in fr.get("available", []):
            if kind(c) == "c":
                continue
            for d, (s1, t1) in (("subtype", (c, tgt)), ("supertype", (tgt, c))):
                tt = export.TypeTable()
                rq = {"op": "find.subd", "s": tt.add(s1), "t": tt.add(t1), "B": [tt.add(b) for b in boxes]}
                rq["tt"] = tt.entries
                rqs.append(rq)
                meta.append((fr, c, d))
    if not rqs:
        return
    for (fr, c, d), rq, a in zip(meta, rqs, common.run_driver(rqs)):
        if a.get("r") is True:
            anyt = fr["factory"].get_any_type()
            if d == "supertype" and (c == anyt or getattr(irrelevant_target(fr["etype"], anyt), "primitive", False)):
                continue        # the recorded shapes (top type, box of a primitive) are judged on the answers
            _viol(run, {"kind": "failing-input", "what": "find_irrelevant_type(%s) keeps %s among its candidates, a %s of the "
                        "query" % (export.short(fr["etype"]), export.short(c), d), "request": rq,
                        "origin": dict(origin or {}, **fr.get("where", {})), "stream": label},
                  SIG_IRR + "related-candidate-available:" + d + "/" + kind(c))


PER_SIGNATURE = 3


def _viol(run, obj, signature, **kw):
    """at most PER_SIGNATURE replays per signature and run (the rest is tallied)"""
    cnt = run.__dict__.setdefault("_sigcount", {})
    cnt[signature] = cnt.get(signature, 0) + 1
    run.tally("rejections_by_signature", signature)
    if cnt[signature] <= PER_SIGNATURE:
        run.violation(obj, signature=signature, **kw)


def report_find_rejection(run, rq, ans, fr, label, origin):
    res = fr["result"]
    who = "find_subtypes" if fr["get_subtypes"] else "find_supertypes"
    for i in ans["bad"][:5]:
        r = res[i]
        # second opinion of the independent Python decider (a gap of the Lean decider is not a defect)
        s, t = (r, fr["etype"]) if fr["get_subtypes"] else (fr["etype"], r)
        if kind(r) == "c" and fr["concrete_only"]:
            shape = "bare-constructor-returned"
        else:
            try:
                second = refsub.sub(s, t)
            except Exception:
                second = False
            shape = subtype_shape(fr, r) + ("" if not second else "/refsub-accepts")
        _viol(run, {"kind": "failing-input", "what": "%s(%s) returned %s, which the declarative decider does not "
                       "accept as a %s" % (who, export.short(fr["etype"]), export.short(r),
                                           "subtype" if fr["get_subtypes"] else "supertype"),
                       "etype": export.short(fr["etype"]), "returned": export.short(r), "request": rq,
                       "checker": ans, "origin": dict(origin or {}, **fr.get("where", {})), "stream": label},
              SIG_SUB + shape)
    if ans["self_demanded"] and ans["self"] != fr["include_self"]:
        _viol(run, {"kind": "failing-input", "what": "%s(%s, include_self=%s): query %s the result"
                       % (who, export.short(fr["etype"]), fr["include_self"],
                          "is in" if ans["self"] else "is missing from"),
                       "request": rq, "checker": ans, "origin": dict(origin or {}, **fr.get("where", {})), "stream": label},
              SIG_SUB + ("self-included-unasked" if ans["self"] else "self-missing"))


def report_irrelevant_rejection(run, rq, ans, fr, label, origin):
    fac = fr["factory"]
    shape = irrelevant_shape(fr["etype"], fr["result"], ans, fac.get_any_type())
    _viol(run, {"kind": "failing-input", "what": "find_irrelevant_type(%s) returned %s, which is a %s of the target"
                   % (export.short(fr["etype"]), export.short(fr["result"]),
                      "subtype" if ans.get("sub") else "supertype" if ans.get("sup") else "?"),
                   "etype": export.short(fr["etype"]), "returned": export.short(fr["result"]),
                   "types": [export.short(t) for t in fr["types"]][:40],
                   "request": rq, "checker": ans, "origin": dict(origin or {}, **fr.get("where", {})), "stream": label},
          SIG_IRR + shape)




class MiniRun:
    """the part of common.Run that eval_frames uses, for use inside a pipeline worker"""

    def __init__(self):
        self.cov = {"traces_validated_against_impl": 0}
        self.tallies = {}
        self.violations = []
        self.cases = []
        self.logs = []

    def tally(self, key, sub):
        d = self.tallies.setdefault(key, {})
        d[sub] = d.get(sub, 0) + 1

    def count(self, case, nontrivial=True):
        if nontrivial:
            self.cases.append(hash(canon(case)))

    def log(self, *a):
        self.logs.append(" ".join(str(x) for x in a))

    def violation(self, obj, signature=None, no_input=False):
        if obj.get("kind") == "broken-correspondence":
            self.first_diff = {"request": obj["request"], "implementation": obj["implementation"], "model": obj["model"]}
            return
        if len(self.violations) < 20:
            self.violations.append({"signature": signature, "replay": obj})
