"""C09 machinery shared by check_C09 and the pipeline plugin plug_find.

`Instrument` wraps the module globals of `src.ir.type_utils` that the searches go through
(`_find_types`, `_construct_related_types`, `to_type`, `find_subtypes`, `find_supertypes`,
`find_irrelevant_type`) plus `utils.random.choice`, as pure pass-throughs that record, per
invocation (nested ones included), a *frame*:

 find frame       etype, types, get_subtypes, include_self, bound, concrete_only, the value the
                  randomised `_construct_related_types` returned to THIS invocation, the set before
                  `to_type` (inputs of the `to_type` calls of this invocation), the result / exception
 irrelevant frame etype, types, the two lists `find_supertypes` / `find_subtypes` returned to THIS
                  invocation, the list handed to `random.choice` right after (= `available_types`),
                  the result / exception
 cand frame       one invocation of `_find_candidate_type_args`: the parameter, the argument, the value
                  `_replace_type_argument` returned (if asked), direction, ignore_variance, the direct
                  `_find_types` sub-calls in order (etype, direction, bound, answer), the candidate list
 irrparam frame   one invocation of `get_irrelevant_parameterized_type`: constructor, the entry of
                  `type_args_map`, per parameter the replacement drawn (`random.choice` outside `to_type`
                  for an invariant parameter, the nested `find_irrelevant_type` answer otherwise), the result

No extra call of the real code is made, so the random stream of a generator run is unchanged.
`requests_of_find` / `requests_of_irrelevant` turn frames into driver requests:

 find.types      exact: model `findTypes` (with the recorded related type) == the set before to_type
 find.check      refinement: the Lean checker `subtypesOK` on the returned list (top-level frames)
 find.avail      exact: model `availTypes` == recorded `available_types`
 find.irrelevant refinement: the Lean checker `irrelevantOK` on the answer
 find.cand       exact: the recorded sub-calls == model `candidateCalls`, the candidate list == model
                 `candidateArgs` of the recorded answers
 find.irrparam   exact: model `irrelevantParam` (recorded replacements) == the answer
"""
import common
from common import canon
import export
from export import kind, VAR
import refsub

SIG_SUB = "find_types:"
SIG_IRR = "find_irrelevant_type:"

CAP = 3000


def _ty(c):
    return c.get_type() if hasattr(c, "get_type") else c


class Instrument:
    def __init__(self, cap=CAP):
        self.cap = cap
        self.frames = []          # finished frames, in completion order
        self.stack = []           # open frames
        self.orig = {}
        self.calls = {"find": 0, "irrelevant": 0, "cand": 0, "irrparam": 0}
        self.in_to_type = 0

    # ---- installation ------------------------------------------------------------------------
    def install(self):
        import src.ir.type_utils as tu
        from src import utils
        self.tu, self.utils = tu, utils
        for n in ("_find_types", "_construct_related_types", "to_type", "find_subtypes", "find_supertypes",
                  "find_irrelevant_type", "_find_candidate_type_args", "_replace_type_argument",
                  "get_irrelevant_parameterized_type"):
            self.orig[n] = getattr(tu, n)
        o = self.orig
        me = self

        def w_find_types(etype, types, get_subtypes, include_self, bound=None, concrete_only=False,
                         ignore_variance=False):
            me.calls["find"] += 1
            parent = me.stack[-1] if me.stack else None
            sub = None
            if parent is not None and parent["kind"] == "cand":
                sub = {"etype": etype, "get_subtypes": bool(get_subtypes), "include_self": bool(include_self),
                       "bound": bound, "concrete_only": bool(concrete_only)}
                parent["calls"].append(sub)
            fr = {"kind": "find", "depth": len(me.stack), "etype": etype, "types": list(types),
                  "get_subtypes": bool(get_subtypes), "include_self": bool(include_self), "bound": bound,
                  "concrete_only": bool(concrete_only), "ignore_variance": bool(ignore_variance),
                  "related": [], "to_type": []}
            me.stack.append(fr)
            try:
                r = o["_find_types"](etype, types, get_subtypes, include_self, bound, concrete_only, ignore_variance)
                fr["result"] = list(r)
                if sub is not None:
                    sub["result"] = list(r)       # a copy: the caller extends the returned list in place
                return r
            except Exception as e:
                fr["exception"] = type(e).__name__
                raise
            finally:
                me.stack.pop()
                me._keep(fr)

        def w_related(etype, types, get_subtypes, ignore_variance=False):
            fr = me.stack[-1] if me.stack else None
            try:
                r = o["_construct_related_types"](etype, types, get_subtypes, ignore_variance=ignore_variance)
            except Exception as e:
                if fr is not None and fr["kind"] == "find":
                    fr["related_exc"] = type(e).__name__
                raise
            if fr is not None and fr["kind"] == "find":
                fr["related"].append(r)
            return r

        def w_to_type(stype, types):
            fr = me.stack[-1] if me.stack else None
            me.in_to_type += 1
            try:
                r = o["to_type"](stype, types)
            except Exception as e:
                if fr is not None and fr["kind"] == "find":
                    fr["to_type_exc"] = type(e).__name__      # e.g. no plain type to instantiate with
                raise
            finally:
                me.in_to_type -= 1
            if fr is not None and fr["kind"] == "find":
                fr["to_type"].append((stype, r))
            return r

        def w_find_subtypes(etype, types, include_self=False, bound=None, concrete_only=False,
                            ignore_variance=False):
            fr = me.stack[-1] if me.stack else None
            r = o["find_subtypes"](etype, types, include_self, bound, concrete_only, ignore_variance)
            if fr is not None and fr["kind"] == "irrelevant" and "subs" not in fr:
                fr["subs"] = list(r)
                fr["armed"] = True
            return r

        def w_find_supertypes(etype, types, include_self=False, bound=None, concrete_only=False):
            fr = me.stack[-1] if me.stack else None
            r = o["find_supertypes"](etype, types, include_self, bound, concrete_only)
            if fr is not None and fr["kind"] == "irrelevant" and "sups" not in fr:
                fr["sups"] = list(r)
            return r

        def w_irrelevant(etype, types, factory):
            me.calls["irrelevant"] += 1
            parent = me.stack[-1] if me.stack else None
            fr = {"kind": "irrelevant", "depth": len(me.stack), "etype": etype, "types": [_ty(t) for t in types],
                  "factory": factory}
            me.stack.append(fr)
            try:
                r = o["find_irrelevant_type"](etype, types, factory)
                fr["result"] = r
                if parent is not None and parent["kind"] == "irrparam":
                    parent["choices"].append(("irrelevant", r))
                return r
            except Exception as e:
                fr["exception"] = type(e).__name__
                raise
            finally:
                me.stack.pop()
                fr.pop("armed", None)
                me._keep(fr)

        def w_cand(t_param, base_targ, types, get_subtypes, type_var_map={}, ignore_variance=False):
            me.calls["cand"] += 1
            fr = {"kind": "cand", "depth": len(me.stack), "t_param": t_param, "base": base_targ,
                  "types": list(types), "get_subtypes": bool(get_subtypes),
                  "ignore_variance": bool(ignore_variance), "calls": []}
            me.stack.append(fr)
            try:
                r = o["_find_candidate_type_args"](t_param, base_targ, types, get_subtypes, type_var_map,
                                                   ignore_variance)
                fr["result"] = None if r is None else list(r)
                return r
            except Exception as e:
                fr["exception"] = type(e).__name__
                raise
            finally:
                me.stack.pop()
                me._keep(fr)

        def w_replace(base_targ, bound, types, has_type_variables):
            fr = me.stack[-1] if me.stack else None
            r = o["_replace_type_argument"](base_targ, bound, types, has_type_variables)
            if fr is not None and fr["kind"] == "cand" and "replaced" not in fr:
                fr["replaced"] = (r,)
            return r

        def w_irrparam(etype, types, type_args_map, factory):
            me.calls["irrparam"] += 1
            ta = type_args_map.get(etype.name)
            fr = {"kind": "irrparam", "depth": len(me.stack), "con": etype, "types": [_ty(t) for t in types],
                  "type_args": None if ta is None else list(ta), "factory": factory, "choices": []}
            me.stack.append(fr)
            try:
                r = o["get_irrelevant_parameterized_type"](etype, types, type_args_map, factory)
                fr["result"] = r
                return r
            except Exception as e:
                fr["exception"] = type(e).__name__
                raise
            finally:
                me.stack.pop()
                me._keep(fr)

        tu._find_candidate_type_args = w_cand
        tu._replace_type_argument = w_replace
        tu.get_irrelevant_parameterized_type = w_irrparam
        tu._find_types = w_find_types
        tu._construct_related_types = w_related
        tu.to_type = w_to_type
        tu.find_subtypes = w_find_subtypes
        tu.find_supertypes = w_find_supertypes
        tu.find_irrelevant_type = w_irrelevant
        self._choice_was_attr = "choice" in utils.random.__dict__
        self._choice_prev = utils.random.__dict__.get("choice")
        inner = utils.random.choice

        def w_choice(choices):
            fr = me.stack[-1] if me.stack else None
            if fr is not None and fr["kind"] == "irrelevant" and fr.get("armed"):
                fr["armed"] = False
                fr["available"] = list(choices)
            r = inner(choices)
            if fr is not None and fr["kind"] == "irrparam" and me.in_to_type == 0 and fr["type_args"] is not None:
                fr["choices"].append(("choice", r))
            return r
        utils.random.choice = w_choice
        return self

    def uninstall(self):
        for n, f in self.orig.items():
            setattr(self.tu, n, f)
        self.orig = {}
        if getattr(self, "utils", None) is not None:
            if self._choice_was_attr:
                self.utils.random.choice = self._choice_prev
            else:
                self.utils.random.__dict__.pop("choice", None)

    def __enter__(self):
        return self.install()

    def __exit__(self, *a):
        self.uninstall()

    def _keep(self, fr):
        if "result" not in fr and "exception" not in fr:
            return      # aborted by the wall-clock cut-off of the pipeline (a BaseException): not a frame
        if self.stack:
            self.stack[-1].setdefault("children", []).append(fr)     # the direct callees of an invocation
        if len(self.frames) < self.cap:
            self.frames.append(fr)

    def take(self):
        fs, self.frames = self.frames, []
        return fs


# ---- requests -------------------------------------------------------------------------------------
def boxes_of(factory):
    """the table `B` of the decider: the non-primitive built-ins of the language"""
    return [t for t in factory.get_non_nothing_types()
            if kind(t) == "b" and not getattr(t, "primitive", False)]


def requests_of_find(fr, boxes):
    """(request, implementation answer, meta) list of one find frame"""
    out = []
    tt = export.TypeTable()
    types = [_ty(c) for c in fr["types"]]
    base = {"etype": tt.add(fr["etype"]), "types": [tt.add(t) for t in types],
            "get_subtypes": fr["get_subtypes"], "include_self": fr["include_self"],
            "bound": tt.add(fr["bound"]) if fr["bound"] is not None else None}
    related = fr["related"][0] if fr["related"] else None
    if "exception" in fr:
        pre, impl = None, fr["exception"]
    elif fr["concrete_only"]:
        pre, impl = [p for p, _ in fr["to_type"]], True
    else:
        pre, impl = fr["result"], True
    rq = dict(base, op="find.types", related=tt.add(related) if related is not None else None)
    if pre is not None:
        rq["expect"] = [tt.add(t) for t in pre]
    rq["tt"] = tt.entries
    if "related_exc" not in fr and "to_type_exc" not in fr:
        # (an exception inside the randomised `_construct_related_types` / `to_type` is outside the model: counted)
        out.append((rq, impl, {"what": "exact", "frame": fr}))
    if "result" in fr and fr["depth"] == 0:
        tt2 = export.TypeTable()
        rq2 = {"op": "find.check", "etype": tt2.add(fr["etype"]), "B": [tt2.add(b) for b in boxes],
               "get_subtypes": fr["get_subtypes"], "include_self": fr["include_self"],
               "concrete_only": fr["concrete_only"],
               "bound": tt2.add(fr["bound"]) if fr["bound"] is not None else None,
               "results": [tt2.add(t) for t in fr["result"]]}
        rq2["tt"] = tt2.entries
        out.append((rq2, True, {"what": "refine", "frame": fr}))
    return out


VARIANT = {"v": None}     # which find_irrelevant_type the tree implements ("asIs" / "repaired"), set by the check


def effective_etype(etype, anyt):
    """the type find_irrelevant_type works with after its preamble"""
    t = irrelevant_target(etype, anyt)
    if VARIANT["v"] == "repaired" and kind(t) == "b" and getattr(t, "primitive", False) and hasattr(t, "box_type"):
        t = t.box_type()
    return t


def requests_of_irrelevant(fr):
    out = []
    fac = fr["factory"]
    boxes = boxes_of(fac)
    anyt = fac.get_any_type()
    if "sups" in fr and "subs" in fr and "exception" not in fr:
        tt = export.TypeTable()
        rq = {"op": "find.avail", "types": [tt.add(t) for t in fr["types"]],
              "relevant": [tt.add(t) for t in fr["sups"] + fr["subs"]],
              "expect": [tt.add(t) for t in fr.get("available", [])],
              "any": tt.add(anyt), "etype": tt.add(effective_etype(fr["etype"], anyt))}
        if VARIANT["v"] in ("asIs", "repaired"):
            rq["variant"] = VARIANT["v"]
        rq["tt"] = tt.entries
        out.append((rq, True, {"what": "exact-avail", "frame": fr}))
    if "exception" not in fr:
        tt2 = export.TypeTable()
        rq2 = {"op": "find.irrelevant", "etype": tt2.add(fr["etype"]), "any": tt2.add(anyt),
               "B": [tt2.add(b) for b in boxes],
               "result": tt2.add(fr["result"]) if fr["result"] is not None else None}
        rq2["tt"] = tt2.entries
        out.append((rq2, True, {"what": "refine-irrelevant", "frame": fr}))
    return out


def requests_of_cand(fr):
    """exact request of one `_find_candidate_type_args` frame (none when the invocation is outside the model:
    exception, a nested search raised, no candidate because `_replace_type_argument` found nothing)"""
    if "exception" in fr or any("result" not in c for c in fr["calls"]):
        return []
    base = fr["replaced"][0] if "replaced" in fr else fr["base"]
    if base is None or not base:
        return []                       # `if not base_targ: return None`
    if fr["result"] is None:
        return []
    if kind(base) == "w" and base.bound is None and VAR(base.variance) != 0:
        return []                       # ill-formed projection: the code fails on `None`
    tt = export.TypeTable()
    rq = {"op": "find.cand", "pvar": VAR(fr["t_param"].variance), "base": tt.add(base),
          "get_subtypes": fr["get_subtypes"], "ignore_variance": fr["ignore_variance"],
          "answers": [[tt.add(t) for t in c["result"]] for c in fr["calls"]],
          "call_types": [tt.add(c["etype"]) for c in fr["calls"]],
          "call_dirs": [c["get_subtypes"] for c in fr["calls"]],
          "expect": [tt.add(t) for t in fr["result"]]}
    rq["tt"] = tt.entries
    return [(rq, True, {"what": "exact-cand", "frame": fr})]


def requests_of_irrparam(fr):
    if "exception" in fr or fr["type_args"] is None:
        return []                       # free instantiation (`instantiate_type_constructor`): outside the model
    con = fr["con"]
    if len(fr["choices"]) != len(con.type_parameters):
        return []
    tt = export.TypeTable()
    rq = {"op": "find.irrparam", "con": tt.add(con), "type_args": [tt.add(t) for t in fr["type_args"]],
          "choices": [tt.add(c) if c is not None else None for _, c in fr["choices"]]}
    if fr["result"] is not None:
        rq["expect"] = tt.add(fr["result"])
    rq["tt"] = tt.entries
    return [(rq, True, {"what": "exact-irrparam", "frame": fr})]


# ---- well-bounded instantiations ---------------------------------------------------------------------
def query_ok(t):
    """is the query inside the domain the property speaks about: a well-formed type (projections agree with
    declaration-site variance, …) whose instantiations respect the declared bounds"""
    try:
        return (kind(t) == "w" or refsub.well_formed(t)) and well_bounded(t)
    except Exception:
        return False


def well_bounded(t, depth=0):
    """every instantiation inside `t` keeps its arguments within the declared bounds of its
    constructor's parameters (judged by the independent reference decider)"""
    import src.ir.types as tp
    k = kind(t)
    if depth > 6:
        return True
    if k == "w":
        return t.bound is None or well_bounded(t.bound, depth + 1)
    if k != "p":
        return True
    ps = list(t.t_constructor.type_parameters)
    args = list(t.type_args)
    m = {p: a for p, a in zip(ps, args)}
    for p, a in zip(ps, args):
        if not well_bounded(a, depth + 1):
            return False
        if p.bound is None:
            continue
        if kind(a) == "w":
            if a.bound is None or not a.is_covariant():
                continue
            a = a.bound
        try:
            b = tp.substitute_type(p.bound, m)
        except Exception:
            return False
        if kind(b) == "w":
            if b.bound is None:
                return False
            b = b.bound
        try:
            if not (a == b or refsub.sub(a, b)):
                return False
        except Exception:
            return False
    return True


# ---- shapes (signatures of findings are shapes, never seeds) -------------------------------------------
def _con_name(t):
    return str(t.name) if kind(t) in ("p", "c", "s", "b") else None


def _nominally_below(con, name):
    """does the class of `con` (a constructor or class) have a supertype named `name`?"""
    try:
        return any(str(getattr(s, "name", "")) == name and s is not con for s in con.get_supertypes())
    except Exception:
        return False


def _has_kind(t, k):
    """does the type mention (at any depth of its arguments / projection bounds) a type of kind `k`?"""
    if kind(t) == k:
        return True
    if kind(t) == "p":
        return any(_has_kind(a, k) for a in t.type_args)
    if kind(t) == "w" and t.bound is not None:
        return _has_kind(t.bound, k)
    return False


def hierarchy_ok(t):
    """the class hierarchy above `t` is one a front end accepts: no class inherits two different instantiations
    of the same generic class (`class Qux : Cell<Integer>, Cell<Array<Long>>` is rejected by every target
    language; `type_args_map` of find_irrelevant_type is keyed by the class name)"""
    try:
        seen = {}
        for u in t.get_supertypes():
            if kind(u) == "p":
                k = str(u.name)
                if k in seen and not (seen[k] == u):
                    return False
                seen.setdefault(k, u)
    except Exception:
        return True
    return True


def irrelevant_target(etype, anyt):
    if kind(etype) == "v" and etype.bound is not None and not (etype.bound == anyt):
        return etype.bound
    return etype


def irrelevant_shape(etype, result, ans, anyt):
    """stable shape of a rejected answer of find_irrelevant_type"""
    tgt = irrelevant_target(etype, anyt)
    if ans.get("top"):
        return "answer-for-top-type"
    if ans.get("tcon"):
        return "bare-constructor-returned"
    direction = "subtype" if ans.get("sub") else "supertype"
    kt, kr = kind(tgt), kind(result)
    if result == tgt or result == etype:
        return "query-itself-returned"
    if direction == "supertype" and result == anyt:
        return "supertype:top-type-returned"
    if direction == "supertype" and kt == "b" and getattr(tgt, "primitive", False) and kr == "b":
        return "supertype:supertype-of-the-box-of-a-primitive"
    if kr == "p" and kt == "p" and result.t_constructor == tgt.t_constructor:
        if _has_kind(tgt, "w"):
            return "%s:same-constructor/projected-query" % direction
        return "%s:same-constructor" % direction
    if kr == "p" and direction == "subtype" and _nominally_below(result.t_constructor, _con_name(tgt)):
        return "subtype:generic-subclass-of-%s-target" % ("parameterized" if kt == "p" else "plain")
    if kt == "p" and direction == "supertype" and kr == "p" and _nominally_below(tgt.t_constructor, _con_name(result)):
        return "supertype:generic-superclass-of-parameterized-target"
    if kind(etype) == "v":
        return "%s:type-variable-query/%s" % (direction, kr)
    return "%s:other/%s-for-%s" % (direction, kr, kt)


def subtype_shape(fr, r):
    """stable shape of a returned type the checker does not accept"""
    e = fr["etype"]
    same = kind(e) == "p" and kind(r) == "p" and r.t_constructor == e.t_constructor
    via = "related" if any(r is x or r == x for x in fr["related"]) else "nominal"

    def has(t, k):
        found = [False]

        def walk(x):
            if kind(x) == k:
                found[0] = True
            if kind(x) == "p":
                for a in x.type_args:
                    walk(a)
            elif kind(x) in ("w", "v") and x.bound is not None and kind(x) == "w":
                walk(x.bound)
        walk(t)
        return found[0]
    feats = []

    def argkind(a):
        if kind(a) != "w":
            return "bare"
        return "star" if a.bound is None else ("out" if a.is_covariant() else "in" if a.is_contravariant() else "inv")
    if same and via == "related":
        # which positions were changed, and how (query argument -> returned argument)
        # (only positions whose new argument is not contained in the query's, by the reference decider;
        #  direction: subtype search r <= e, supertype search e <= r)
        def offending(p, a, b):
            try:
                return not (refsub.contained(b, a, p, 0) if fr["get_subtypes"] else refsub.contained(a, b, p, 0))
            except Exception:
                return True
        def qualifier(a, b):
            """how the new argument relates to the old one (the bounds, for projections)"""
            xa = a.bound if kind(a) == "w" and a.bound is not None else a
            xb = b.bound if kind(b) == "w" and b.bound is not None else b
            if kind(a) == "w" and has(xa, "w"):
                return "[projected-bound]"
            try:
                if xa == xb:
                    return "[same]"
                if refsub.sub(xb, xa):
                    return "[new-below-old]"
                if refsub.sub(xa, xb):
                    return "[new-above-old]"
            except Exception:
                pass
            return "[unrelated]"
        def nested_super_search_wrong(p):
            """root cause of an offending position: the candidates of this position come from a nested SUPERTYPE
            search on a type that carries a use-site projection, and that search returned a non-supertype (the
            recorded defect of the supertype direction: bare types instead of projections of them)"""
            for ch in fr.get("children", []):
                if ch["kind"] != "cand" or ch["t_param"] is not p:
                    continue
                for c in ch["calls"]:
                    if c["get_subtypes"] or "result" not in c or not has(c["etype"], "w"):
                        continue
                    for x in c["result"]:
                        try:
                            if not (x == c["etype"]) and not refsub.sub(c["etype"], x):
                                return True
                        except Exception:
                            pass
            return False
        if fr["get_subtypes"]:
            off = [p for p, a, b in zip(e.t_constructor.type_parameters, e.type_args, r.type_args)
                   if not (a == b) and offending(p, a, b)]
            if off and all(nested_super_search_wrong(p) for p in off):
                return "sub/related/samecon/nested-supertype-search-of-projected-type"
        allmoves = [("%s-to-%s" % (argkind(a), argkind(b)) + (qualifier(a, b) if offending(p, a, b) else ""),
                     offending(p, a, b))
                    for p, a, b in zip(e.t_constructor.type_parameters, e.type_args, r.type_args) if not (a == b)]
        moves = sorted({m for m, bad in allmoves if bad}) or sorted({m for m, _ in allmoves})
        ps0 = list(e.t_constructor.type_parameters)
        if not any(p.bound is not None and p.bound.has_type_variables() for p in ps0):
            return "%s/related/samecon/%s" % ("sub" if fr["get_subtypes"] else "super", "+".join(moves) or "none")
        # the recorded finding `bound-mentions-parameter` is about the parameters that take part in a dependency
        # (the bound of one mentions another): an offending position at an INDEPENDENT parameter of such a class
        # is a different violation and keeps the ordinary signature
        def mentions(t, q):
            if t is None:
                return False
            if kind(t) == "v":
                return t == q or mentions(t.bound, q)
            if kind(t) == "p":
                return any(mentions(a, q) for a in t.type_args)
            if kind(t) == "w":
                return mentions(t.bound, q)
            return False
        involved = [p for p in ps0 if (p.bound is not None and p.bound.has_type_variables())
                    or any(q is not p and mentions(q.bound, p) for q in ps0)]
        indep = [(p, a, b) for p, a, b in zip(ps0, e.type_args, r.type_args)
                 if not (a == b) and offending(p, a, b) and not any(p is q for q in involved)]
        if indep:
            moves2 = sorted({"%s-to-%s" % (argkind(a), argkind(b)) + qualifier(a, b) for p, a, b in indep})
            return "%s/related/samecon/%s" % ("sub" if fr["get_subtypes"] else "super", "+".join(moves2))
    if kind(e) == "p":
        ps = list(e.t_constructor.type_parameters)
        if any(p.bound is not None and p.bound.has_type_variables() for p in ps):
            feats.append("bound-mentions-parameter")
    if feats:
        pass
    elif has(e, "w") or has(r, "w"):
        feats.append("wildcard")
    if "bound-mentions-parameter" not in feats and (has(e, "v") or has(r, "v")):
        feats.append("typevar")
    return "%s/%s/%s%s" % ("sub" if fr["get_subtypes"] else "super", via,
                           "samecon" if same else "%s-for-%s" % (kind(r), kind(e)),
                           ("/" + "+".join(feats)) if feats else "")


# ---- input distribution (evidence: which shapes the streams actually exercise) ---------------------------
DECL = {0: "inv", 1: "out", 2: "in"}


def argkind(a):
    if kind(a) != "w":
        return "bare"
    return "star" if a.bound is None else {1: "out", 2: "in"}.get(VAR(a.variance), "inv-proj")


def nesting(t):
    if kind(t) == "p":
        return 1 + max([nesting(a) for a in t.type_args] + [0])
    if kind(t) == "w" and t.bound is not None:
        return nesting(t.bound)
    return 0


def _neighbours(x, types, anyt=None):
    """does the type list hold a proper nominal subtype / a proper nominal supertype (other than a root) of `x`?
    (cheap: stored supertype closures only, `==` of the IR)"""
    if x is None or kind(x) not in ("s", "b", "p"):
        return ""
    sub = sup = False
    try:
        ups = [u for u in x.get_supertypes() if not (u == x)]
        for t in types[:60]:
            t = _ty(t)
            if kind(t) not in ("s", "b", "p") or t == x:
                continue
            if not sub and any(u == x for u in t.get_supertypes()):
                sub = True
            if not sup and list(getattr(t, "supertypes", [])) and any(u == t for u in ups):
                sup = True
            if sub and sup:
                break
    except Exception:
        return "?"
    return ("+sub" if sub else "") + ("+super" if sup else "")


def distribution(run, fr):
    k = fr["kind"]
    try:
        if k == "find" and fr["depth"] == 0:
            e = fr["etype"]
            d = "sub" if fr["get_subtypes"] else "super"
            run.tally("dist_find_query", "%s:%s%d" % (d, kind(e), nesting(e)))
            if kind(e) == "p":
                for p, a in zip(e.t_constructor.type_parameters, e.type_args):
                    x = a.bound if kind(a) == "w" else a
                    run.tally("dist_find_position", "%s:decl-%s/use-%s%s" % (
                        d, DECL.get(VAR(p.variance), "?"), argkind(a), _neighbours(x, fr["types"])))
        elif k == "irrelevant" and fr["depth"] == 0:
            e = fr["etype"]
            run.tally("dist_irrelevant_query", "%s%d" % (kind(e), nesting(e)))
            if kind(e) == "p":
                tys = [_ty(t) for t in fr["types"]]
                for p, a in zip(e.t_constructor.type_parameters, e.type_args):
                    x = a.bound if kind(a) == "w" and a.bound is not None else a
                    if kind(x) == "p":
                        inl = any(kind(t) == "c" and t == x.t_constructor for t in tys)
                        run.tally("dist_irrelevant_nested", "instantiation-under-decl-%s/use-%s%s" % (
                            DECL.get(VAR(p.variance), "?"), argkind(a), "/constructor-in-types" if inl else ""))
        elif k == "cand":
            b = fr["base"]
            x = b.bound if kind(b) == "w" else b
            run.tally("dist_cand", "%s:decl-%s/use-%s%s%s" % (
                "sub" if fr["get_subtypes"] else "super", DECL.get(VAR(fr["t_param"].variance), "?"), argkind(b),
                "/ignore-variance" if fr["ignore_variance"] else "", _neighbours(x, fr["types"])))
        elif k == "irrparam" and fr["type_args"] is not None:
            for p, a in zip(fr["con"].type_parameters, fr["type_args"]):
                run.tally("dist_irrparam_position", "decl-%s/%s%d" % (DECL.get(VAR(p.variance), "?"), kind(a), nesting(a)))
    except Exception as e:           # a counter must never break a run
        run.tally("dist_errors", type(e).__name__)


# ---- judges below the top level (failing-input search of the cand / irrparam correspondences) --------------
def judge_cand(run, rq, fr, label, origin):
    """`candidateArgs_sound` on the recorded invocation: when the nested searches kept their promise (every
    element is the queried type or, by the reference decider, on the requested side of it), every candidate of
    the subtype direction must be contained in the query's argument"""
    if not fr["get_subtypes"] or fr["ignore_variance"] or not fr.get("result"):
        return
    p = fr["t_param"]
    base = fr["replaced"][0] if "replaced" in fr else fr["base"]
    pv = VAR(p.variance)
    if kind(base) == "w":
        if base.bound is None or VAR(base.variance) not in (1, 2) or pv not in (0, VAR(base.variance)):
            return                      # star / ill-formed position: nothing to check
        if kind(base.bound) == "w":
            return
    try:
        for c in fr["calls"]:
            e = c["etype"]
            for r in c["result"]:
                if r == e:
                    continue
                if kind(r) == "w" or kind(e) == "w":
                    run.tally("judge_cand", "hypothesis-fails")
                    return
                if not (refsub.sub(r, e) if c["get_subtypes"] else refsub.sub(e, r)):
                    run.tally("judge_cand", "hypothesis-fails")   # the nested answer is wrong: judged on its own
                    return
        bad = [b for b in fr["result"] if not refsub.contained(b, base, p, 0)]
    except Exception:
        run.tally("judge_cand", "decider-error")
        return
    run.tally("judge_cand", "rejected" if bad else "ok")
    if bad:
        _viol(run, {"kind": "failing-input", "what": "_find_candidate_type_args(%s, %s, get_subtypes=True) offers %s, which "
                    "is not contained in the argument (the nested searches answered correctly: %s)"
                    % (export.short(p), export.short(base), export.short(bad[0]),
                       "; ".join("%s(%s) = [%s]" % ("subtypes" if c["get_subtypes"] else "supertypes",
                                                    export.short(c["etype"]),
                                                    ", ".join(export.short(r) for r in c["result"][:8]))
                                 for c in fr["calls"])),
                    "request": rq, "implementation": True,
                    "origin": dict(origin or {}, **fr.get("where", {})), "stream": label},
              SIG_SUB + "candidate-not-contained/decl-%s/use-%s" % (DECL.get(pv, "?"), argkind(base)))


def judge_irrparam(run, rq, fr, label, origin):
    """`irrelevantParam_neq` on the recorded invocation: the answer must not be the instantiation with the
    relevant arguments"""
    r, ta = fr.get("result"), fr["type_args"]
    if r is None or ta is None or kind(r) != "p":
        return
    if len(r.type_args) == len(ta) and all(a == b for a, b in zip(r.type_args, ta)):
        _viol(run, {"kind": "failing-input", "what": "get_irrelevant_parameterized_type(%s) with relevant arguments <%s> "
                    "returned %s: the relevant instantiation itself" % (
                        export.short(fr["con"]), ", ".join(export.short(a) for a in ta), export.short(r)),
                    "request": rq, "implementation": True,
                    "origin": dict(origin or {}, **fr.get("where", {})), "stream": label},
              SIG_IRR + "relevant-instantiation-returned")


# ---- evaluation of frames ------------------------------------------------------------------------------
def eval_frames(run, frames, label, boxes_by_frame=None, origin=None):
    """turn frames into requests, run the model, compare / judge.  Returns statistics."""
    rqs, impl, meta = [], [], []
    for fr in frames:
        if fr["kind"] == "find":
            boxes = fr.get("boxes") or []
            items = requests_of_find(fr, boxes)
        elif fr["kind"] == "irrelevant":
            items = requests_of_irrelevant(fr)
        elif fr["kind"] == "cand":
            items = requests_of_cand(fr)
            run.tally("cand_frames", "modelled" if items else "outside-model")
        else:
            items = requests_of_irrparam(fr)
            run.tally("irrparam_frames", "modelled" if items else
                      ("free-instantiation" if fr["type_args"] is None else "outside-model"))
        distribution(run, fr)
        for rq, ia, m in items:
            rqs.append(rq)
            impl.append(ia)
            meta.append(m)
    st = {"frames": len(frames), "requests": len(rqs), "exact_diffs": 0, "rejected": 0, "returned_types": 0}
    if not rqs:
        return st
    answers = common.run_driver(rqs)
    first_diff = None
    n0 = len(run.violations)
    avail_diffs = []
    for rq, ia, m, a in zip(rqs, impl, meta, answers):
        if "error" in a:
            raise common.HarnessError("%s: driver error on %s: %s" % (label, canon(rq)[:300], a["error"]))
        ans = a.get("r")
        fr = m["frame"]
        op = rq["op"]
        run.tally("ops", op)
        run.cov["traces_validated_against_impl"] += 1
        if op in ("find.types", "find.avail", "find.cand", "find.irrparam"):
            nt = bool(rq.get("expect")) or op == "find.irrparam"
            run.count({"request": rq, "answer": ia}, nontrivial=nt)
            if op == "find.cand":
                judge_cand(run, rq, fr, label, origin)
            elif op == "find.irrparam":
                run.tally("irrparam_answers", "None" if fr["result"] is None else "instantiation")
                judge_irrparam(run, rq, fr, label, origin)
            if ans != ia:
                st["exact_diffs"] += 1
                if first_diff is None:
                    first_diff = (rq, ia, ans, fr)
                if op == "find.avail" and len(avail_diffs) < 40:
                    avail_diffs.append(fr)
            if op == "find.types":
                run.tally("find_frames", ("sub" if fr["get_subtypes"] else "super") +
                          ("/self" if fr["include_self"] else "") + ("/bound" if fr["bound"] is not None else "") +
                          ("/concrete" if fr["concrete_only"] else "") + ("/nested" if fr["depth"] else ""))
                if "exception" in fr:
                    run.tally("find_exceptions", fr["exception"])
                # the instantiations `to_type` drew: never a bare constructor, and of the right class
                for p, q in fr["to_type"]:
                    if kind(p) == "c" and not (kind(q) == "p" and q.t_constructor == p):
                        run.violation({"kind": "failing-input", "what": "to_type returned %s for the constructor %s"
                                       % (export.short(q), export.short(p)), "request": rq},
                                      signature=SIG_SUB + "to_type-not-an-instantiation")
        elif op == "find.check":
            n = len(rq["results"])
            st["returned_types"] += n
            run.count({"request": rq, "answer": True}, nontrivial=n > 0)
            run.tally("refine_find", "ok" if ans["ok"] else "rejected")
            if not query_ok(fr["etype"]):
                # the query is not a well-formed instantiation (an argument exceeds its declared bound):
                # the property promises nothing; counted
                run.tally("refine_find", "ill-bounded-query-skipped")
            elif not ans["ok"] and not fr["get_subtypes"]:
                # the property speaks about the subtype search and the irrelevant-type search only; the
                # supertype search (used by find_irrelevant_type to collect relevant types) is tallied
                for i in ans["bad"]:
                    run.tally("supertype_search_rejected_informational", subtype_shape(fr, fr["result"][i]))
            elif not ans["ok"]:
                st["rejected"] += 1
                report_find_rejection(run, rq, ans, fr, label, origin)
        elif op == "find.irrelevant":
            run.count({"request": rq, "answer": True}, nontrivial=fr.get("result") is not None)
            run.tally("refine_irrelevant", "ok" if ans["ok"] else "rejected")
            run.tally("irrelevant_answers", "None" if fr.get("result") is None else
                      ("early:" if ans["early"] else "") + kind(fr["result"]))
            if not ans["ok"] and not query_ok(fr["etype"]):
                run.tally("refine_irrelevant", "ill-bounded-query-skipped")
            elif not ans["ok"] and not hierarchy_ok(irrelevant_target(fr["etype"], fr["factory"].get_any_type())):
                run.tally("refine_irrelevant", "two-instantiations-of-one-superclass-skipped")
            elif not ans["ok"]:
                st["rejected"] += 1
                report_irrelevant_rejection(run, rq, ans, fr, label, origin)
    for fr in frames:
        if fr["kind"] == "irrelevant" and "exception" in fr:
            run.tally("irrelevant_exceptions", fr["exception"])
        elif fr["kind"] in ("cand", "irrparam") and "exception" in fr:
            run.tally(fr["kind"] + "_exceptions", fr["exception"])
    if avail_diffs:
        search_related_candidates(run, avail_diffs, label, origin)
    if first_diff is not None:
        rq, ia, ans, fr = first_diff
        run.log("%s: %d exact requests differ; first: op=%s impl=%s model=%s"
                % (label, st["exact_diffs"], rq["op"], canon(ia)[:100], canon(ans)[:300]))
        # a failing input for a broken correspondence: does the implementation's own answer violate the
        # property?  (the refinement requests above have judged the same frames: rejected ones were reported)
        run.violation({"kind": "broken-correspondence", "correspondence": "%s vs Model/Find (%s)" % (rq["op"], label),
                       "etype": export.short(fr["etype"] if "etype" in fr else fr.get("base", fr.get("con"))),
                       "request": rq, "implementation": ia, "model": ans,
                       "origin": origin},
                      signature=rq["op"] + ":model-differs", no_input=len(run.violations) == n0)
    return st


def search_related_candidates(run, frames, label, origin):
    """failing-input search for a broken `available_types` correspondence: a candidate the implementation keeps
    available although the declarative decider relates it to the query"""
    rqs, meta = [], []
    for fr in frames:
        fac = fr["factory"]
        anyt = fac.get_any_type()
        tgt = effective_etype(fr["etype"], anyt)
        boxes = boxes_of(fac)
        for c in fr.get("available", []):
            if kind(c) == "c":
                continue
            for d, (s1, t1) in (("subtype", (c, tgt)), ("supertype", (tgt, c))):
                tt = export.TypeTable()
                rq = {"op": "find.subd", "s": tt.add(s1), "t": tt.add(t1), "B": [tt.add(b) for b in boxes]}
                rq["tt"] = tt.entries
                rqs.append(rq)
                meta.append((fr, c, d))
    if not rqs:
        return
    for (fr, c, d), rq, a in zip(meta, rqs, common.run_driver(rqs)):
        if a.get("r") is True:
            anyt = fr["factory"].get_any_type()
            if d == "supertype" and (c == anyt or getattr(irrelevant_target(fr["etype"], anyt), "primitive", False)):
                continue        # the recorded shapes (top type, box of a primitive) are judged on the answers
            _viol(run, {"kind": "failing-input", "what": "find_irrelevant_type(%s) keeps %s among its candidates, a %s of the "
                        "query" % (export.short(fr["etype"]), export.short(c), d), "request": rq,
                        "origin": dict(origin or {}, **fr.get("where", {})), "stream": label},
                  SIG_IRR + "related-candidate-available:" + d + "/" + kind(c))


PER_SIGNATURE = 3


def _viol(run, obj, signature, **kw):
    """at most PER_SIGNATURE replays per signature and run (the rest is tallied)"""
    cnt = run.__dict__.setdefault("_sigcount", {})
    cnt[signature] = cnt.get(signature, 0) + 1
    run.tally("rejections_by_signature", signature)
    if cnt[signature] <= PER_SIGNATURE:
        run.violation(obj, signature=signature, **kw)


def report_find_rejection(run, rq, ans, fr, label, origin):
    res = fr["result"]
    who = "find_subtypes" if fr["get_subtypes"] else "find_supertypes"
    for i in ans["bad"][:5]:
        r = res[i]
        # second opinion of the independent Python decider (a gap of the Lean decider is not a defect)
        s, t = (r, fr["etype"]) if fr["get_subtypes"] else (fr["etype"], r)
        if kind(r) == "c" and fr["concrete_only"]:
            shape = "bare-constructor-returned"
        else:
            try:
                second = refsub.sub(s, t)
            except Exception:
                second = False
            shape = subtype_shape(fr, r) + ("" if not second else "/refsub-accepts")
        _viol(run, {"kind": "failing-input", "what": "%s(%s) returned %s, which the declarative decider does not "
                       "accept as a %s" % (who, export.short(fr["etype"]), export.short(r),
                                           "subtype" if fr["get_subtypes"] else "supertype"),
                       "etype": export.short(fr["etype"]), "returned": export.short(r), "request": rq,
                       "checker": ans, "origin": dict(origin or {}, **fr.get("where", {})), "stream": label},
              SIG_SUB + shape)
    if ans["self_demanded"] and ans["self"] != fr["include_self"]:
        _viol(run, {"kind": "failing-input", "what": "%s(%s, include_self=%s): query %s the result"
                       % (who, export.short(fr["etype"]), fr["include_self"],
                          "is in" if ans["self"] else "is missing from"),
                       "request": rq, "checker": ans, "origin": dict(origin or {}, **fr.get("where", {})), "stream": label},
              SIG_SUB + ("self-included-unasked" if ans["self"] else "self-missing"))


def report_irrelevant_rejection(run, rq, ans, fr, label, origin):
    fac = fr["factory"]
    shape = irrelevant_shape(fr["etype"], fr["result"], ans, fac.get_any_type())
    _viol(run, {"kind": "failing-input", "what": "find_irrelevant_type(%s) returned %s, which is a %s of the target"
                   % (export.short(fr["etype"]), export.short(fr["result"]),
                      "subtype" if ans.get("sub") else "supertype" if ans.get("sup") else "?"),
                   "etype": export.short(fr["etype"]), "returned": export.short(fr["result"]),
                   "types": [export.short(t) for t in fr["types"]][:40],
                   "request": rq, "checker": ans, "origin": dict(origin or {}, **fr.get("where", {})), "stream": label},
          SIG_IRR + shape)




class MiniRun:
    """the part of common.Run that eval_frames uses, for use inside a pipeline worker"""

    def __init__(self):
        self.cov = {"traces_validated_against_impl": 0}
        self.tallies = {}
        self.violations = []
        self.cases = []
        self.logs = []

    def tally(self, key, sub):
        d = self.tallies.setdefault(key, {})
        d[sub] = d.get(sub, 0) + 1

    def count(self, case, nontrivial=True):
        if nontrivial:
            self.cases.append(hash(canon(case)))

    def log(self, *a):
        self.logs.append(" ".join(str(x) for x in a))

    def violation(self, obj, signature=None, no_input=False):
        if obj.get("kind") == "broken-correspondence":
            self.first_diff = {"request": obj["request"], "implementation": obj["implementation"], "model": obj["model"]}
            return
        if len(self.violations) < 20:
            self.violations.append({"signature": signature, "replay": obj})
