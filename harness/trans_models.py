"""Registry of the Lean translator models (C11 / C12).  A language is *modelled* when it has an
entry here; `check_C11` / `check_C12` run the real translators of all four languages and compare
with the Lean text only where a model is registered (evidence: `modelled_languages`).

To add a language: port its translator to lean/Heph/Model/Trans<Lang>.lean (state-threading,
`visit : St → Node → St × Doc`), fill lean/Driver/Trans<Lang>.lean with the ops below and add an
entry.  Request of every op: {"op", "program": <export_ast.export_program>, "package": str|null,
"history": [<export>…] (optional)}.

 op        -> {"r": text}                         text printed by an object that translated `history` before
 doc_op    -> {"r": [[tag, name|null, text]…]}    tagged pieces; "".join(texts) must be the text
 inv_op    -> {"r": [[tag, name|null]…]}          declaration inventory computed from the IR alone
 visit_op  -> {"r": {"texts": […], "state": {…}}} top-level declarations visited from a hand-set state
 state_op  -> {"r": {attr: value}}                attributes after history + program
 issam_op  -> {"r": [[class name, bool]…]}        (optional) the model's `tu.is_sam` on every top-level class
Optional keys: `reset` (the `op` understands {"reset": true}: `_reset_state()` is called after the history; the
plugin records `<lang>_after_reset`), `is_op_text` (text of the operator piece the model prints for `is` / `!is`,
check_C12 leg K5), `sem_op` absent = no K4 leg.
`state_attrs`: attribute names of the real translator object compared with the model's state
(`_nodes_stack` is compared by length only: frames are summaries).
`visit_states` (optional): the hand-set states of the visit leg, as request fields of `visit_op` named after the
attributes of the real object (default: the three Kotlin states of check_C11.VISIT_STATES); the real side of the leg is
a block of harness/c11_plugin.py producing `<lang>_visit`.  `doc_op`/`inv_op`/`sem_op` are optional: without them
check_C12 compares the text only."""

LANGS = ("java", "kotlin", "groovy", "scala")

MODELS = {
    "kotlin": {
        "op": "trans.kotlin",
        "doc_op": "trans.kotlin.doc",
        "inv_op": "trans.kotlin.inventory",
        "visit_op": "trans.kotlin.visit",
        "state_op": "trans.kotlin.state",
        "issam_op": "trans.kotlin.issam",
        "sem_op": "trans.kotlin.sem",
        "state_attrs": ["ident", "is_unit", "is_lambda", "_cast_integers"],
        "model": "lean/Heph/Model/TransKotlin.lean",
        "decl_tags": ["class", "tparam", "field", "func", "param", "var", "super", "varannot", "retannot",
                      "targs", "new"],
    },
    "scala": {
        "op": "trans.scala",
        "doc_op": "trans.scala.doc",
        "inv_op": "trans.scala.inventory",
        "visit_op": "trans.scala.visit",
        "state_op": "trans.scala.state",
        "sem_op": "trans.scala.sem",
        "reset": True,      # `op` understands {"reset": true}: `_reset_state()` after the history
        "is_op_text": "isInstanceOf",   # text of the operator piece of `is` / `!is` (check_C12 K5)
        "state_attrs": ["ident", "is_unit", "is_lambda", "_cast_integers"],
        "model": "lean/Heph/Model/TransScala.lean",
        "decl_tags": ["class", "tparam", "field", "func", "param", "var", "super", "varannot", "retannot",
                      "targs", "new"],
    },
    "groovy": {
        "op": "trans.groovy",
        "visit_op": "trans.groovy.visit",
        "state_op": "trans.groovy.state",
        "state_attrs": ["ident", "is_unit", "_cast_number", "_namespace", "_inside_is", "_inside_is_function",
                        "_children_res", "_main_children", "_main_method", "_function_interfaces",
                        "always_cast_numbers", "always_cast_ftypes"],
        "visit_states": [
            {"ident": 0, "is_unit": False, "_cast_number": False, "_inside_is": False, "_inside_is_function": False,
             "_namespace": ["global"]},
            {"ident": 4, "is_unit": True, "_cast_number": True, "_inside_is": True, "_inside_is_function": False,
             "_namespace": ["global", "zz"]},
            {"ident": 2, "is_unit": False, "_cast_number": True, "_inside_is": True, "_inside_is_function": True,
             "_namespace": ["global"]},
        ],
        "model": "lean/Heph/Model/TransGroovy.lean",
    },
}


def modelled():
    return sorted(MODELS)
