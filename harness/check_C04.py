"""C04 — type overwriting injects exactly one real type error (partial).

proof side : lean/Heph/Props/C04.lean (theorems about lean/Heph/Model/Mutation.lean:
             overwriteAt/overwriteDiff on the by-value IR, `unrelated`, the error message)
tie to code: real programs through Generator -> TypeErasure -> TypeOverwriting
             (harness/pipeline.py) with the recording plugin harness/plugin_tda.py:
             (a) `mut.overwrite_diff` on the by-value exports before/after the mutation must answer
                 exactly one site when the mutation reports an injected error, and "none" (and an
                 unchanged translation) when it reports nothing; an independent by-value walk in
                 Python (`py_overwrite_diff`) must find the same site;
             (b) old and new type of the site must be unrelated: the model's verdict
                 (`Ty.isSubtype`/`Ty.isAssignable`, both directions, with the language's table of
                 extra assignable built-ins) is compared with the real `is_subtype`/`is_assignable`
                 of the very objects (recorded in the worker), and must be "unrelated";
             (c) the message must be `errorMessage old new node_id` of the model (`pyStr` = the
                 `__str__` of the real classes), old/new being the types found by the DIFF, and the
                 node id must name the declaration / instantiated class at the site;
             (d) the mutant must be rejected: by the verified judge (driver op "mut.wt": the checker of
                 C01 plus the strict reading of bottom constants of Model/Overwrite.lean, on the input
                 AND on the mutant, all four languages; rejected = an obligation fails that the input
                 does not fail; a verdict that cannot be obtained is a harness error) and, for Java, by
                 javac on the real translation (for Java javac decides, the checker's verdict is
                 tallied beside it). An accepted mutant is classified by SHAPE (site kind, kinds of
                 old/new type); the shapes of the design findings 10 and 11 are known findings, any
                 other shape exits 1.
streams    : (1) str(); (2) STRUCTURED: harness/c04_families.py, 55 hand-built program families x 4
             languages (site kinds x type shapes: classes, built-ins, primitives/boxes, bounded and
             unbounded type parameters, constructor type arguments with phantom parameters, variance
             with top-type arguments, nested instantiations, generic calls, generic subclasses), plain
             and erased, under a grid of forced first draws of the mutation + free seeds, equal
             outcomes judged once; (3) corpus; (4) random generator programs.
"""
import json
import os
import time
from concurrent.futures import ThreadPoolExecutor

import common
import pipeline
import check_C03 as c3
from check_C03 import GROUPS, TYPE_KEYS, TYPE_LIST_KEYS, Interner, node_at, spec_key

LEVEL = "proof"
LANGS = ("java", "kotlin", "groovy", "scala")
_TABLES = {}


def tables():
    """the per-language table of extra assignable built-ins and the `.name` of the built-in
    classes (both read off the real classes)"""
    if not _TABLES:
        pipeline.setup()
        import export
        import plugin_tda
        _TABLES["extra"] = [list(p) for p in export.extra_assignable_table()]
        _TABLES["bnames"] = [list(p) for p in plugin_tda.builtin_names()]
    return _TABLES


# ------------------------------------------------------------------ independent by-value diff
def py_overwrite_diff(before, after):
    """every (path, key) at which the two exports differ by value, or ("shape", path)"""
    it = Interner()
    tb, ta = it.table(before["tt"]), it.table(after["tt"])
    diffs = []

    def ty(tab, v):
        return None if v is None else tab[v]

    def walk(a, b, path):
        if a is None or b is None:
            if a is not b:
                diffs.append((path, "@presence"))
            return
        if a["n"] != b["n"] or set(a) != set(b):
            diffs.append((path, "@shape"))
            return
        kind = a["n"]
        groups = dict((k, g) for g, k in GROUPS.get(kind, []))
        for key in sorted(a):
            if key in groups:
                continue
            x, y = a[key], b[key]
            if key in TYPE_KEYS:
                x, y = ty(tb, x), ty(ta, y)
            elif key in TYPE_LIST_KEYS:
                x, y = [ty(tb, v) for v in x], [ty(ta, v) for v in y]
            if x != y:
                diffs.append((path, key))
        for g, key in GROUPS.get(kind, []):
            x, y = a[key], b[key]
            if isinstance(x, list) or isinstance(y, list):
                if not (isinstance(x, list) and isinstance(y, list)) or len(x) != len(y):
                    diffs.append((path, "@shape:" + key))
                    continue
                for i, (u, v) in enumerate(zip(x, y)):
                    walk(u, v, path + [[g, i]])
            else:
                walk(x, y, path + [[g, 0]])

    if before["lang"] != after["lang"]:
        diffs.append(([], "lang"))
    if before["context"] != after["context"]:
        diffs.append(([], "context"))
    if len(before["decls"]) != len(after["decls"]):
        diffs.append(([], "@shape:decls"))
    else:
        for i, (u, v) in enumerate(zip(before["decls"], after["decls"])):
            walk(u, v, [[0, i]])
    return diffs


def py_site(before, after, diffs):
    """the one permitted site the by-value differences amount to, as the model names it
    ([path, [field, index?]]), or None"""
    if not diffs:
        return "none"
    paths = {json.dumps(p) for p, _ in diffs}
    if len(paths) != 1:
        return None
    path = diffs[0][0]
    keys = sorted(k for _, k in diffs)
    a, b = node_at(before, path), node_at(after, path)
    it = Interner()
    tb, ta = it.table(before["tt"]), it.table(after["tt"])
    if a["n"] == "var" and set(keys) <= {"varType", "inferred"} and "inferred" in keys:
        if b["varType"] is not None and ta[b["varType"]] == ta[b["inferred"]]:
            return [path, ["varType"]]
    if a["n"] == "func" and set(keys) <= {"retType", "inferred"} and "inferred" in keys:
        if b["retType"] is not None and ta[b["retType"]] == ta[b["inferred"]]:
            return [path, ["retType"]]
    if a["n"] == "new" and keys == ["t"]:
        ea, eb = before["tt"][a["t"]], after["tt"][b["t"]]
        if ea["k"] == "p" and eb["k"] == "p" and len(ea["args"]) == len(eb["args"]) and \
                tb[ea["con"]] == ta[eb["con"]] and ea.get("name") == eb.get("name"):
            idx = [i for i, (x, y) in enumerate(zip(ea["args"], eb["args"])) if tb[x] != ta[y]]
            if len(idx) == 1:
                return [path, ["newArg", idx[0]]]
    if a["n"] == "call" and keys == ["targs"] and len(a["targs"]) == len(b["targs"]):
        idx = [i for i, (x, y) in enumerate(zip(a["targs"], b["targs"])) if tb[x] != ta[y]]
        if len(idx) == 1:
            return [path, ["callArg", idx[0]]]
    return None


def site_name(export, site):
    """the name the node id of the mutated node must end with"""
    n = node_at(export, site[0])
    if n["n"] in ("var", "func"):
        return n["name"]
    if n["n"] == "new":
        e = export["tt"][n["t"]]
        return e.get("name")
    if n["n"] == "call":
        return n.get("func") or n.get("name")
    return None


# ------------------------------------------------------------------ accepted mutants: shapes
# JLS 5.1.2 widening primitive conversions
JLS_WIDEN = {"byte": {"short", "int", "long", "float", "double"}, "short": {"int", "long", "float", "double"},
             "char": {"int", "long", "float", "double"}, "int": {"long", "float", "double"},
             "long": {"float", "double"}, "float": {"double"}, "double": set()}
JAVA_BASE = {"byte": "byte", "short": "short", "int": "int", "integer": "int", "long": "long", "float": "float",
             "double": "double", "char": "char", "character": "char"}
JAVA_NUMBER_CLASSES = {"number", "bigdecimal", "biginteger"}


def java_kind(d, which):
    """(kind, base): prim/boxed of a Java numeric or char type, `number` classes, or other"""
    name = str(d[which + "_name"]).lower()
    if d[which + "_builtin"] and name in JAVA_BASE:
        return ("prim" if d[which + "_prim"] else "boxed"), JAVA_BASE[name]
    if d[which + "_builtin"] and name in JAVA_NUMBER_CLASSES:
        return "numclass", name
    if d[which + "_builtin"]:
        return "builtin", name
    return "class", name


def jls_assignable(old, new):
    """does the JLS allow a value of type `old` where `new` is declared (assignment context, 5.2),
    for the numeric/char built-ins: identity, widening primitive, boxing + widening reference
    (to Number, to Object), unboxing + widening primitive"""
    (ok, ob), (nk, nb) = old, new
    if ok in ("prim", "boxed") and nk == "prim":
        return ob == nb or nb in JLS_WIDEN[ob]          # (unboxing,) widening primitive
    if ok in ("prim", "boxed") and nk == "boxed":
        return ob == nb                                  # boxing / identity
    if ok in ("prim", "boxed") and nk == "numclass":
        return nb == "number" and ob != "char"           # boxing + widening reference to Number
    if ok == "numclass" and nk == "numclass":
        return nb == "number"
    if ok in ("prim", "boxed", "numclass") and new == ("builtin", "object"):
        return True                                      # boxing + widening reference to Object
    return False


JLS_RANGE = {"byte": (-128, 127), "short": (-32768, 32767), "char": (0, 65535)}


def jls_constant_narrowing(export, site, old, new):
    """JLS 5.2: a constant expression of type byte/short/char/int may be assigned to a variable of
    type byte/short/char (or Byte/Short/Character) when its value is representable there.  Only
    the shapes the generator produces are recognised: the initialiser of the variable is an integer
    literal or names a constant variable (see jls_constant_value)."""
    if site[1][0] != "varType" or old[0] not in ("prim", "boxed") or old[1] not in ("byte", "short", "char", "int"):
        return False
    if new[0] not in ("prim", "boxed") or new[1] not in JLS_RANGE:
        return False
    v = jls_constant_value(export, node_at(export, site[0]).get("expr"))
    if v is None:
        return False
    lo, hi = JLS_RANGE[new[1]]
    return lo <= v <= hi


def jls_constant_value(export, e, depth=0):
    """value of a JLS 15.29 constant expression of the two shapes the generator produces: an integer
    literal, or the simple name of a final top-level variable (a static final field of Main: a
    constant variable, JLS 4.12.4) whose initialiser is again such an expression"""
    if not e or depth > 20:
        return None
    if e["n"] == "int":
        try:
            return int(e["lit"])
        except ValueError:
            return None
    if e["n"] == "variable":
        for d in export.get("decls", []):
            if isinstance(d, dict) and d.get("n") == "var" and d.get("name") == e.get("name"):
                return jls_constant_value(export, d.get("expr"), depth + 1) if d.get("isFinal") else None
    return None


def accepted_shape(lang, site, d, text_changed, export=None):
    """shape signature of a mutant the compiler accepts"""
    field = site[1][0]
    if not text_changed:
        return "%s:overwrite:%s:translation-unchanged:compiler-accepts" % (lang, field)
    if field in ("newArg", "callArg"):
        return "%s:overwrite:%s:type-argument:compiler-accepts" % (lang, field)
    old, new = java_kind(d, "old"), java_kind(d, "new")
    if lang == "java" and jls_assignable(old, new):
        return "java:overwrite:jls-assignment-conversion:compiler-accepts"
    if lang == "java" and export is not None and jls_constant_narrowing(export, site, old, new):
        return "java:overwrite:jls-constant-narrowing:compiler-accepts"
    return "%s:overwrite:%s:%s:%s->%s:%s:compiler-accepts" % (lang, field, old[0], old[1], new[0], new[1])


# ------------------------------------------------------------------ pipeline
def make_specs(run, n, langs=LANGS, cap=60, base=None):
    specs = []
    sws = pipeline.all_switch_settings()
    for i in range(n):
        lang = langs[i % len(langs)]
        specs.append({"lang": lang, "seed": run.rng.randrange(1, 10 ** 6) if base is None else base + i,
                      "switches": list(run.rng.choice(sws)) if run.rng.random() < 0.3 else [0, 0, 0, 0],
                      "max_depth": 6, "stages": ["gen", "erase", "overwrite"], "export": True,
                      "translate": [lang], "cap": cap,
                      "plugins": ["plugin_tda"], "erasure_options": {}})
    return specs


def wt_request(export):
    """the request of the verified judge of a mutant: the checker of C01 (`checkProgram`, needs the language's table
    of built-ins "bt") plus the strict reading of bottom constants (op `mut.wt`, Model/Overwrite.lean)"""
    import check_C01 as c1
    rq = c1.add_bt(export)
    rq["op"] = "mut.wt"
    return rq


def wt_failures(a):
    """the failing obligations as a set of (path, tag, detail)"""
    return {(json.dumps(f[0]), f[1], f[2]) for f in a["r"]["fail"]}


def skey(spec):
    """what replays a case: a pipeline spec or a family spec"""
    if "family" in spec:
        return {k: spec.get(k) for k in ("family", "lang", "seed", "erase", "force")}
    return c3.spec_key(spec)


def program_requests(r, have_checker):
    er, ow = r["stages"]["erase"], r["stages"]["overwrite"]
    t = tables()
    reqs = [{"op": "mut.overwrite_diff", "before": er["export"], "after": ow["export"],
             "extra": t["extra"], "bnames": t["bnames"]}]
    rec = (r.get("plugins", {}).get("plugin_tda", {}) or {}).get("overwrite")
    if rec and rec.get("message") is not None and "old" in rec and rec.get("new") is not None:
        reqs.append({"op": "mut.message", "tt": rec["tt"], "old": rec["old"], "new": rec["new"],
                     "node_id": rec["chosen"]["id"], "bnames": t["bnames"]})
        reqs.append({"op": "mut.unrelated", "tt": rec["tt"], "a": rec["old"], "b": rec["new"], "extra": t["extra"]})
    n_model = len(reqs)
    if have_checker:
        reqs.append(wt_request(ow["export"]))
        reqs.append(wt_request(er["export"]))
    return reqs, n_model


def batch_model(batch, have_checker):
    t0 = time.time()
    ws = [program_requests(r, have_checker) for r in batch]
    answers = common.run_driver([q for reqs, _ in ws for q in reqs])
    out, i = [], 0
    for reqs, n_model in ws:
        out.append({"answers": answers[i:i + len(reqs)], "n_model": n_model})
        i += len(reqs)
    return out, time.time() - t0


def batch_javac(batch):
    t0 = time.time()
    texts, idx = [], []
    for k, r in enumerate(batch):
        if r["spec"]["lang"] != "java":
            continue
        er, ow = r["stages"]["erase"], r["stages"]["overwrite"]
        if not ow.get("is_transformed"):
            continue
        texts += [er["texts"]["java"], ow["texts"]["java"]]
        idx.append(k)
    res = c3.javac_many(texts)
    out = [None] * len(batch)
    for j, k in enumerate(idx):
        out[k] = (res[2 * j], res[2 * j + 1])
    return out, time.time() - t0


# ------------------------------------------------------------------ judging
def norm(x):
    return x[1:] if isinstance(x, str) and x.startswith("!") else x


def judge(run, r, w, jres, have_checker):
    spec = r["spec"]
    lang = spec["lang"]
    er, ow = r["stages"]["erase"], r["stages"]["overwrite"]
    rec = (r.get("plugins", {}).get("plugin_tda", {}) or {}).get("overwrite")
    a = w["answers"][0]
    if "error" in a:
        raise common.HarnessError("mut.overwrite_diff: " + a["error"])
    m = a["r"]
    injected = bool(ow.get("is_transformed"))
    where = {"spec": skey(spec)}
    diffs = py_overwrite_diff(er["export"], ow["export"])
    ref = py_site(er["export"], ow["export"], diffs)
    model_site = "none" if m == "none" else (m["site"] if isinstance(m, dict) and "site" in m else None)
    run.cov["traces_validated_against_impl"] += 1
    text_changed = er["texts"][lang] != ow["texts"][lang]
    run.tally("mutation", ("injected" if injected else "not-injected") + ("/text-changed" if text_changed else "/text-same"))
    run.count({"lang": lang, "injected": injected, "site": None if not isinstance(model_site, list) else model_site[1][0],
               "spec": skey(spec)}, nontrivial=injected)

    # model against the independent walk
    if json.dumps(model_site) != json.dumps(ref):
        obj = dict(where, what="overwrite_diff", model=m, reference=ref, differences=diffs[:6])
        run.broken.append({"obligation": "overwriteDiff vs by-value walk", "detail": obj})
        c3.report(run, obj, signature="C04:model-disagrees:overwrite_diff", no_input=True)

    # (a) the code against the specification (judged by the independent walk)
    if not injected:
        if ref != "none":
            c3.report(run, dict(where, what="program changed although no error was reported", differences=diffs[:6]),
                          signature="C04:not-injected:program-changed")
        if text_changed:
            c3.report(run, dict(where, what="translation changed although no error was reported"),
                          signature="C04:not-injected:translation-changed")
        if ow.get("error_injected") is not None:
            c3.report(run, dict(where, what="message without is_transformed", message=ow.get("error_injected")),
                          signature="C04:not-injected:message")
        if rec is not None:
            run.tally("not_injected_reason", "no-irrelevant-type" if rec.get("find_calls") and rec.get("new") is None
                      else "excluded-or-no-type-parameter")
        else:
            run.tally("not_injected_reason", "no-candidate-method")
        return
    if ref is None or ref == "none":
        c3.report(run, dict(where, what="injected error but the program does not differ in exactly one declared type",
                           differences=diffs[:8], model=m),
                      signature="C04:injected:%s" % ("no-difference" if ref == "none" else "not-one-site"))
        return
    site = ref
    run.tally("site", site[1][0])
    if not isinstance(m, dict) or "site" not in m:
        return      # model disagreement already reported
    # (b) unrelated
    rel_model = m["rel"]["rel"]
    run.tally("unrelated(model)", str(m["rel"]["unrelated"]))
    if rec is None or "rel_impl" not in rec:
        raise common.HarnessError("plugin_tda recorded no overwrite although an error was injected: %r" % (skey(spec),))
    rel_impl = [norm(x) for x in rec["rel_impl"]]
    # the types of the DIFF must be the types the mutation handled
    if m["old_str"] != rec["old_str"] or m["new_str"] != rec["new_str"]:
        obj = dict(where, what="types at the site differ from the types the mutation replaced/produced",
                   diff=[m["old_str"], m["new_str"]], recorded=[rec["old_str"], rec["new_str"]])
        c3.report(run, obj, signature="C04:injected:site-types-differ-from-reported-types")
    a_rel = w["answers"][2]["r"]
    if a_rel["rel"] != rel_impl:
        obj = dict(where, what="unrelated", model=a_rel["rel"], impl=rel_impl, old=rec["old_str"], new=rec["new_str"])
        run.broken.append({"obligation": "correspondence mut.unrelated", "detail": obj})
        c3.report(run, obj, signature="C04:model-disagrees:unrelated", no_input=True)
    if any(x is not False for x in rel_impl) or not a_rel["unrelated"] or not m["rel"]["unrelated"]:
        # shape: which of the four relations hold (s = subtype, a = assignable only)
        if rel_impl[0] is True or rel_impl[1] is True:
            shape = "subtype"
        elif all(isinstance(x, bool) for x in rel_impl):
            shape = "assignable-but-not-subtype"
        else:
            shape = "relation-test-raises"
        run.tally("related", "%s:%s:%s->%s" % (shape, site[1][0], rec["old_str"], rec["new_str"]))
        c3.report(run, dict(where, what="the new type is related to the replaced one", old=rec["old_str"],
                           new=rec["new_str"], relations_impl=rel_impl, relations_model=rel_model,
                           order="[old<:new, new<:old, old assignable-to new, new assignable-to old]"),
                      signature="C04:%s:related:%s" % (lang, shape))
    # (c) message
    a_msg = w["answers"][1]["r"]
    msg = ow.get("error_injected")
    run.tally("message", "equal" if a_msg == msg else "differs")
    if a_msg != msg:
        obj = dict(where, what="message", model=a_msg, impl=msg)
        expect = "%s expected but %s found in node %s" % (rec["old_str"], rec["new_str"], rec["chosen"]["id"])
        if msg == expect:
            run.broken.append({"obligation": "correspondence mut.message (pyStr)", "detail": obj})
            c3.report(run, obj, signature="C04:model-disagrees:message", no_input=True)
        else:
            c3.report(run, obj, signature="C04:injected:message-does-not-name-old-new-node")
    nm = site_name(er["export"], site)
    nid = rec["chosen"]["id"]
    if nm is None or not isinstance(nid, str) or nid.rsplit("/", 1)[-1] != nm:
        c3.report(run, dict(where, what="node id in the message does not name the mutated node", node_id=nid,
                           name_at_site=nm, site=site), signature="C04:injected:message-names-other-node")
    # (d) rejected: the verified judge (checker of C01 + strict bottom constants) on the input and on the mutant.
    # The mutant counts as rejected when it has a failing obligation its input does not have.
    checker_accepts = None
    if have_checker:
        a_o, a_e = w["answers"][w["n_model"]], w["answers"][w["n_model"] + 1]
        if "error" in a_o or "error" in a_e:
            # a verdict that cannot be obtained is a failure of the machinery, never silently "not judged"
            raise common.HarnessError("mut.wt: %s (%r)" % (a_o.get("error") or a_e.get("error"), skey(spec)))
        new_fail = wt_failures(a_o) - wt_failures(a_e)
        checker_accepts = not new_fail
        run.tally("mut.wt", "%s/%s" % ("input-ok" if a_e["r"]["ok"] else ("input-strict-only" if a_e["r"]["lenient"] else "input-rejected"),
                                       "mutant-ok" if checker_accepts else "mutant-rejected"))
        if not checker_accepts:
            strict_only = all(f[4] for f in a_o["r"]["fail"] if (json.dumps(f[0]), f[1], f[2]) in new_fail)
            run.tally("mutant_rejected_by", "strict-bottom-rule-only" if strict_only else
                      sorted({t for _, t, _ in new_fail})[0].split("/")[0])
        elif lang != "java":
            sig = accepted_shape(lang, site, m, text_changed)
            run.tally("accepted_shapes", sig)
            run.tally("accepted_detail", "%s:%s->%s" % (site[1][0], rec["old_str"], rec["new_str"]))
            c3.report(run, dict(where, what="mutant accepted by the verified checker (mut.wt): no obligation fails that "
                               "the input does not fail already", site=site, old=rec["old_str"], new=rec["new_str"],
                               message=ow.get("error_injected")), signature="C04:" + sig)
    if jres is not None:
        (rc_e, out_e), (rc_o, out_o) = jres
        run.tally("javac", "%s/%s%s" % ("input-ok" if rc_e == 0 else "input-rejected",
                                       "mutant-ok" if rc_o == 0 else "mutant-rejected",
                                       "" if text_changed else "(same text)"))
        run.count({"javac": [rc_e == 0, rc_o == 0], "spec": skey(spec)})
        if checker_accepts is not None:
            run.tally("checker_vs_javac", "checker-%s/javac-%s" % ("accepts" if checker_accepts else "rejects",
                                                                   "accepts" if rc_o == 0 else "rejects"))
        if rc_e == 0 and rc_o == 0:
            sig = accepted_shape(lang, site, m, text_changed, er["export"])
            run.tally("accepted_shapes", sig)
            run.tally("accepted_detail", "%s:%s->%s" % (site[1][0], rec["old_str"], rec["new_str"]))
            c3.report(run, dict(where, what="mutant accepted by javac", site=site, old=rec["old_str"], new=rec["new_str"],
                               message=msg), signature="C04:" + sig)


def run_all(run, specs, budget_s, threads=3, batch_size=8, batch_wait=12):
    t0 = time.time()
    have_checker = c3.checker_available()
    run.cov["check.wt_available"] = have_checker
    if not have_checker:
        run.assumptions.append("driver op check.wt not available: mutants judged by javac (Java) only")
    tables()
    pending = []
    n = 0

    def drain(limit):
        while len(pending) > limit:
            batch, fm, fj = pending.pop(0)
            (ws, tm), (js, tj) = fm.result(), fj.result()
            c3.add_time(run, "time_model_s", tm)
            c3.add_time(run, "time_javac_s", tj)
            for r, w, jres in zip(batch, ws, js):
                judge(run, r, w, jres, have_checker)

    with ThreadPoolExecutor(2 * threads) as ex:
        cur, cur_t = [], time.time()

        def flush():
            nonlocal cur, cur_t
            if cur:
                pending.append((cur, ex.submit(batch_model, cur, have_checker), ex.submit(batch_javac, cur)))
            cur, cur_t = [], time.time()

        for r in c3.stream_results(run, specs, budget_s):
            n += 1
            if "exception" in r:
                run.tally("pipeline", "exception:" + r["exception"]["type"])
                if len(run.cov.setdefault("pipeline_exceptions", [])) < 8:
                    run.cov["pipeline_exceptions"].append({"spec": skey(r["spec"]), "exception": {
                        k: str(v)[:300] for k, v in r["exception"].items() if k != "traceback"},
                        "stages_done": sorted(r.get("stages", {}))})
            elif "overwrite" not in r["stages"]:
                run.tally("pipeline", "cutoff:" + str(r.get("cutoff")))
            else:
                run.tally("pipeline", "ok" if "cutoff" not in r else "cutoff:" + str(r["cutoff"]))
                p = r.get("plugins", {}).get("plugin_tda", {})
                if "error" in p:
                    raise common.HarnessError("plugin_tda failed: " + p["error"])
                if not cur:
                    cur_t = time.time()
                cur.append(r)
            if len(cur) >= batch_size or (cur and time.time() - cur_t > batch_wait):
                flush()
                drain(threads)
            if n % 25 == 0:
                run.log("%d programs through the pipeline at %.0fs" % (n, time.time() - t0))
        flush()
        run.cov["time_pipeline_wall_s"] = round(time.time() - t0, 1)
        drain(0)
    run.cov["programs"] = n
    run.log("%d programs checked at %.0fs" % (n, time.time() - t0))
    if not run.cov.get("pipeline", {}).get("ok"):
        raise common.HarnessError("no program went through the pipeline within the budget (%d results)" % n)


# ------------------------------------------------------------------ structured stream: hand-built families
def family_group(name):
    return name.split("_")[0] if name.startswith("phantom") else name


def family_stream(run, langs, families=None, specs=None):
    """hand-built programs (harness/c04_families.py) x forced / seeded RNG states through the real
    TypeOverwriting; equal outcomes (same mutant, same report) are judged once, every run is counted"""
    import hashlib
    import c04_families as F
    t0 = time.time()
    have_checker = c3.checker_available()
    if specs is None:
        specs = F.specs(run.rng, run.tier, langs=langs, families=families)
    results = F.run_many(specs)
    run.cov["family_time_runs_s"] = round(time.time() - t0, 1)
    uniq, order = {}, []
    for r in results:
        sp = r["spec"]
        grp = family_group(sp["family"])
        if "exception" in r:
            run.tally("family_pipeline", "exception:" + r["exception"]["type"])
            if len(run.cov.setdefault("family_exceptions", [])) < 8:
                run.cov["family_exceptions"].append({"spec": skey(sp), "exception": {
                    k: str(v)[:300] for k, v in r["exception"].items() if k != "traceback"}})
            continue
        if "overwrite" not in r.get("stages", {}):
            run.tally("family_pipeline", "cutoff:" + str(r.get("cutoff")))
            continue
        p = r.get("plugins", {}).get("plugin_tda", {})
        if "error" in p:
            raise common.HarnessError("plugin_tda failed: " + p["error"])
        run.tally("family_pipeline", "ok")
        ow = r["stages"]["overwrite"]
        rec = p.get("overwrite") or {}
        run.tally("family_runs", "%s:%s" % (grp, "erased" if sp.get("erase") else "plain"))
        run.tally("family_runs_by_lang", "%s:%s" % (sp["lang"], "injected" if ow.get("is_transformed") else "not-injected"))
        chosen = rec.get("chosen") or {}
        run.tally("family_chosen_node", "%s:%s" % (sp["lang"], chosen.get("k")))
        key = hashlib.sha1(json.dumps([sp["lang"], sp["family"], bool(sp.get("erase")), ow["export"], ow.get("is_transformed"),
                                       ow.get("error_injected"), rec.get("old_str"), rec.get("new_str"), chosen,
                                       rec.get("tparam"), rec.get("rel_impl"), rec.get("pick")],
                                      sort_keys=True, default=str).encode()).hexdigest()
        run.count({"family": sp["family"], "lang": sp["lang"], "erase": bool(sp.get("erase")), "outcome": key[:12]},
                  nontrivial=bool(ow.get("is_transformed")))
        if key not in uniq:
            uniq[key] = r
            order.append(key)
            if ow.get("is_transformed"):
                d = run.cov.setdefault("family_distinct_injections", {})
                d[grp + ":" + sp["lang"]] = d.get(grp + ":" + sp["lang"], 0) + 1
    batch = [uniq[k] for k in order]
    run.cov["family_runs_total"] = len(results)
    run.cov["family_distinct_outcomes"] = len(batch)
    if not batch:
        raise common.HarnessError("no hand-built program went through TypeOverwriting")
    shards = [batch[i::6] for i in range(6) if batch[i::6]]
    with ThreadPoolExecutor(len(shards) + 1) as ex:
        fj = ex.submit(batch_javac, batch)
        fms = [ex.submit(batch_model, sh, have_checker) for sh in shards]
        ws = [None] * len(batch)
        for i, f in enumerate(fms):
            out, tm = f.result()
            c3.add_time(run, "time_model_s", tm)
            ws[i::6] = out
        js, tj = fj.result()
        c3.add_time(run, "time_javac_s", tj)
    for r, w, jres in zip(batch, ws, js):
        judge(run, r, w, jres, have_checker)
    run.cov["family_time_s"] = round(time.time() - t0, 1)
    run.log("families: %d runs, %d distinct outcomes judged at %.0fs" % (len(results), len(batch), time.time() - t0))


def str_stream(run):
    """structured stream: `pyStr` against the real `__str__` on the built-in types of the four
    languages and on types of random class tables"""
    pipeline.setup()
    import export
    import gen_types
    import src.ir.types as tp
    import src.ir.java_types as jt
    import src.ir.groovy_types as gt
    import src.ir.kotlin_types as kt
    import src.ir.scala_types as st
    ts = []
    for fac in (jt.JavaBuiltinFactory(), gt.GroovyBuiltinFactory(), kt.KotlinBuiltinFactory(), st.ScalaBuiltinFactory()):
        for t in fac.get_non_nothing_types():
            ts.append(t)
            if isinstance(t, tp.Builtin) and not t.is_type_constructor():
                try:
                    ts.append(type(t)(primitive=True))
                except TypeError:
                    pass
        ts.append(fac.get_void_type())
    # types over random completed class tables: simple classes, type constructors, instantiations
    # (with wildcards), type parameters
    for _ in range(12):
        tb = gen_types.Table(run.rng)
        ts += list(tb.simple) + list(tb.cons)
        for c in tb.cons:
            ts += list(c.type_parameters)
        for _ in range(6):
            ts.append(tb.ground(depth=2))
    tt = export.TypeTable()
    idx = [tt.add(t) for t in ts]
    a = common.run_driver([{"op": "mut.str", "tt": tt.entries, "ts": idx, "bnames": tables()["bnames"]}])[0]
    if "error" in a:
        raise common.HarnessError("mut.str: " + a["error"])
    bad = [(str(t), s) for t, s in zip(ts, a["r"]) if str(t) != s]
    for t in ts:
        run.count({"str": str(t)})
    run.cov["traces_validated_against_impl"] += len(ts)
    run.tally("str", "types")
    if bad:
        obj = {"what": "pyStr differs from __str__", "pairs": bad[:5]}
        run.broken.append({"obligation": "correspondence mut.str", "detail": obj})
        c3.report(run, obj, signature="C04:model-disagrees:str", no_input=True)


def check(run):
    run.build_and_audit()
    run.cov["rule"] = ("one evaluation = one program through the three stages (diff, relation, message, "
                       "compiler verdict) or one str() comparison; non-trivial = an error was injected")
    str_stream(run)
    corpus = os.path.join(common.VERIF, "corpus", "C04")
    specs = []
    if os.path.isdir(corpus):
        for f in sorted(os.listdir(corpus)):
            specs.append(json.load(open(os.path.join(corpus, f)))["spec"])
    langs = tuple(os.environ.get("C04_LANGS", ",".join(LANGS)).split(","))
    fams = os.environ.get("C04_FAMILIES")
    if fams != "none":
        family_stream(run, langs, families=fams.split(",") if fams else None)
    if run.tier == "quick":
        specs += make_specs(run, int(os.environ.get("C04_N", "40")), langs=langs, cap=40)
        run_all(run, specs, budget_s=int(os.environ.get("C04_BUDGET", "45")))
    else:
        specs += make_specs(run, int(os.environ.get("C04_N", "4000")), langs=langs, cap=60)
        run_all(run, specs, budget_s=int(os.environ.get("C04_BUDGET", "1300")))


def replay(run, rp):
    run.build_and_audit()
    if "family" in rp.get("spec", {}):
        run.cov["rule"] = "replay of one hand-built program under one forced / seeded RNG state"
        family_stream(run, LANGS, specs=[dict(rp["spec"])])
        return
    spec = dict(rp["spec"])
    spec.update({"export": True, "translate": [spec["lang"]], "cap": 300,
                 "plugins": ["plugin_tda"], "erasure_options": {}})
    run_all(run, [spec], budget_s=600)
