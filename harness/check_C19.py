"""C19 — graph queries agree with their textbook definitions.

proof side : lean/Heph/Props/C19.lean (theorems about lean/Heph/Model/Graph.lean)
tie to code: exact correspondence of src/graph_utils.py with the model on exhaustive small
             graphs and random larger ones; an independent reference (plain closure
             computations below) decides who is right when they differ.
"""
import itertools
import common
from common import compare_stream

LEVEL = "proof"


class E:  # stand-in for type_dependency_analysis.Edge: dfs reads only `.target`
    def __init__(self, t):
        self.target = t


# ------------------------------------------------------------------ implementation side
def impl_answer(gu, op, g, s, d):
    graph = {k: list(v) for k, v in g}
    try:
        if op == "graph.reachable":
            return bool(gu.reachable(graph, s, d))
        if op == "graph.bi_reachable":
            return bool(gu.bi_reachable(graph, s, d))
        if op == "graph.connected":
            return bool(gu.connected(graph, s, d))
        if op == "graph.dfs":
            return sorted(gu.dfs({k: [E(t) for t in v] for k, v in g}, s))
        if op == "graph.all_paths":
            return gu.find_all_paths(graph, s)
        if op == "graph.longest_paths":
            return gu.find_longest_paths(graph, s)
        if op == "graph.all_reachable":
            return sorted(gu.find_all_reachable(graph, s))
        if op == "graph.all_bi_reachable":
            return sorted(gu.find_all_bi_reachable(graph, s))
        if op == "graph.all_connected":
            return sorted(gu.find_all_connected(graph, s))
        if op == "graph.none_reachable":
            return bool(gu.none_reachable(graph, s, d))
        if op == "graph.none_connected":
            return bool(gu.none_connected(graph, s, d))
        if op == "graph.sources":
            return gu.find_sources(graph, s)
    except KeyError:
        return "KeyError"
    raise AssertionError(op)


SET_OPS = {"graph.dfs", "graph.all_reachable", "graph.all_bi_reachable", "graph.all_connected"}


def canon_model(rq, m):
    if rq["op"] in SET_OPS and isinstance(m, list):
        return sorted(m)
    return m


# ------------------------------------------------------------------ independent reference
def ref_answer(op, g, s, d):
    """the textbook definition, computed by closure; set-valued answers as sorted lists,
    path lists as sorted lists of paths"""
    keys = [k for k, _ in g]
    adj = {k: list(v) for k, v in g}
    kset = set(keys)

    def closure(start, step):
        seen, todo = {start}, [start]
        while todo:
            x = todo.pop()
            for y in step(x):
                if y not in seen:
                    seen.add(y)
                    todo.append(y)
        return seen

    def fwd_keys(x):
        return [y for y in adj.get(x, []) if y in kset]

    def sym_keys(x):
        return fwd_keys(x) + [k for k in keys if x in adj[k]]

    def reach(a, b):
        return a in kset and b in closure(a, fwd_keys)

    def conn(a, b):
        return a in kset and b in closure(a, sym_keys)

    def simple_paths(a):
        res = []

        def go(path):
            res.append(list(path))
            last = path[-1]
            if last not in kset:
                return
            for y in adj[last]:
                if y not in path:
                    go(path + [y])
        go([a])
        return res

    if op == "graph.reachable":
        return reach(s, d)
    if op == "graph.bi_reachable":
        return reach(s, d) or reach(d, s)
    if op == "graph.connected":
        return conn(s, d)
    if op == "graph.dfs":
        out = set()
        for y in adj.get(s, []):
            out |= closure(y, lambda x: adj.get(x, []))
        out.discard(s)
        return sorted(out)
    if op == "graph.all_paths":
        return sorted(set(map(tuple, simple_paths(s))))
    if op == "graph.longest_paths":
        ps = set(map(tuple, simple_paths(s)))
        return sorted(p for p in ps if not any(len(q) > len(p) and q[:len(p)] == p for q in ps))
    if op == "graph.all_reachable":
        return sorted({v for p in simple_paths(s) for v in p})
    if op == "graph.all_bi_reachable":
        return sorted(n for n in keys if reach(s, n) or reach(n, s))
    if op == "graph.all_connected":
        return sorted(n for n in keys if conn(s, n))
    if op == "graph.none_reachable":
        return any(reach(v, d) or reach(d, v) for v in keys if reach(s, v) or reach(v, s))
    if op == "graph.none_connected":
        return any(conn(v, d) for v in keys if conn(s, v))
    if op == "graph.sources":
        if s not in kset:
            return "KeyError"
        return sorted(x for x in keys if not any(x in adj[k] for k in keys) and reach(x, s))
    raise AssertionError(op)


def ref_view(op, ans):
    """project an implementation answer onto what the reference states (sets of paths /
    sets of vertices); duplicates in a path list are kept visible"""
    if op in ("graph.all_paths", "graph.longest_paths") and isinstance(ans, list):
        t = sorted(map(tuple, ans))
        return t if len(set(t)) == len(t) else ["DUPLICATES"] + t
    if op == "graph.sources" and isinstance(ans, list):
        return sorted(ans) if len(set(ans)) == len(ans) else ["DUPLICATES"] + sorted(ans)
    return ans


def impl_vs_ref(gu, rq):
    op, g, s, d = rq["op"], rq["g"], rq.get("s"), rq.get("d")
    ia = impl_answer(gu, op, g, s, d)
    ra = ref_answer(op, g, s, d)
    iv = ref_view(op, ia)
    if op in ("graph.all_paths", "graph.longest_paths"):
        # with duplicate neighbours in an adjacency list Python repeats paths; the
        # definition is about the set of paths when adjacency lists are duplicate-free
        if any(len(set(v)) != len(v) for _, v in g):
            iv = sorted(set(map(tuple, ia)))
        iv = [list(p) for p in iv] if iv and iv[0] != "DUPLICATES" else iv
        ra = [list(p) for p in ra]
    return ia, iv, ra


# ------------------------------------------------------------------ input generation
PAIR_OPS = ["graph.reachable", "graph.bi_reachable", "graph.connected", "graph.none_reachable",
            "graph.none_connected"]
ONE_OPS = ["graph.dfs", "graph.all_paths", "graph.longest_paths", "graph.all_reachable",
           "graph.all_bi_reachable", "graph.all_connected", "graph.sources"]


def requests_for(g, verts):
    rqs = []
    for s in verts:
        for op in ONE_OPS:
            rqs.append({"op": op, "g": g, "s": s})
        for d in verts:
            for op in PAIR_OPS:
                rqs.append({"op": op, "g": g, "s": s, "d": d})
    return rqs


def exhaustive_graphs(n, dangling):
    """all graphs with keys 0..n-1 whose adjacency lists are increasing subsets of
    0..n-1 (plus the non-key vertex n when `dangling`)"""
    targets = list(range(n + (1 if dangling else 0)))
    subsets = [list(c) for r in range(len(targets) + 1) for c in itertools.combinations(targets, r)]
    for combo in itertools.product(subsets, repeat=n):
        yield [[k, combo[k]] for k in range(n)]


def random_graph(rng, nmax):
    n = rng.randint(1, nmax)
    keys = rng.sample(range(nmax + 3), n)
    universe = keys + [nmax + 5, nmax + 6]  # two vertices that are never keys
    dens = rng.choice([0.1, 0.2, 0.35, 0.6])
    g = []
    for k in keys:
        ns = [v for v in universe if rng.random() < dens]
        rng.shuffle(ns)
        if ns and rng.random() < 0.1:
            ns.append(rng.choice(ns))  # duplicate neighbour
        g.append([k, ns])
    return g, universe


def nontrivial(rq, ia):
    return len(rq["g"]) >= 2 and any(v for _, v in rq["g"])


# ------------------------------------------------------------------ the check
def search_failing_input(run, gu, diffs, label):
    """a correspondence differs: decide on the implementation, with the reference, whether
    the property itself fails on one of the differing inputs (smallest graph first)"""
    diffs = sorted(diffs, key=lambda d: (len(d[1]["g"]), sum(len(v) for _, v in d[1]["g"])))
    by_op = {}
    for _, rq, ia, ma in diffs:
        by_op.setdefault(rq["op"], []).append((rq, ia, ma))
    for op, lst in sorted(by_op.items()):
        found = None
        for rq, ia, ma in lst[:2000]:
            _, iv, ra = impl_vs_ref(gu, rq)
            if iv != ra:
                found = (rq, ia, ma, iv, ra)
                break
        if found:
            rq, ia, ma, iv, ra = found
            run.violation({"kind": "failing-input", "correspondence": label, "request": rq,
                           "implementation": ia, "model": ma, "definition": ra},
                          signature="%s:impl-differs-from-definition" % op)
        else:
            rq, ia, ma = lst[0]
            run.violation({"kind": "broken-correspondence", "correspondence": label, "request": rq,
                           "implementation": ia, "model": ma,
                           "note": "model and implementation differ; implementation agrees with the "
                                   "definition on all %d differing inputs" % len(lst)},
                          signature="%s:model-differs" % op, no_input=True)


def check(run):
    import src.graph_utils as gu
    proofs_ok = run.build_and_audit()
    rng = run.rng
    quick = run.tier == "quick"
    streams = []
    # corpus of minimised past disagreements first
    corpus = [
        ([[0, [1]], [1, [2]], [2, [3]], [3, []]], [0, 1, 2, 3]),       # chain: find_longest_paths defect
        ([[0, [1, 2]], [1, [0]], [2, [2]]], [0, 1, 2, 9]),            # cycle + self loop + unknown vertex
        ([[4, [0]], [0, [1]], [1, [2]], [2, []]], [0, 1, 2, 4]),       # docstring example of connected
    ]
    rqs = []
    for g, vs in corpus:
        rqs += requests_for(g, vs)
    streams.append(("corpus", rqs))
    nmax = 3 if quick else 4
    rqs = []
    for n in range(0, nmax + 1):
        for dangling in (False, True):
            if n == nmax and dangling and not quick:
                continue  # 4 keys + dangling vertex = 2^20 graphs: sampled below instead
            for g in exhaustive_graphs(n, dangling):
                rqs += requests_for(g, list(range(n + 1)))
    streams.append(("exhaustive<=%d" % nmax, rqs))
    rqs = []
    for _ in range(300 if quick else 20000):
        g, verts = random_graph(rng, 7 if quick else 12)
        vs = rng.sample(verts, min(len(verts), 3))
        rqs += requests_for(g, vs)
    streams.append(("random", rqs))
    run.cov["rule"] = ("requests = (op, graph, vertices); exhaustive over all graphs with <=%d key vertices "
                       "(+1 non-key vertex), then random graphs up to %d vertices with duplicate and dangling "
                       "neighbours; non-trivial = at least 2 keys and one edge; distinct by canonical JSON"
                       % (nmax, 7 if quick else 12))
    run.cov["exhaustive"] = False
    all_diffs = []
    for label, rqs in streams:
        CH = 200000
        for i in range(0, len(rqs), CH):
            chunk = rqs[i:i + CH]
            impl = [impl_answer(gu, r["op"], r["g"], r.get("s"), r.get("d")) for r in chunk]
            diffs = compare_stream(run, chunk, impl, label, canon_answer=canon_model, nontrivial=nontrivial)
            all_diffs += [(label,) + d for d in diffs]
        run.log("stream %s: %d requests" % (label, len(rqs)))
    # the implementation against the definition directly (the 'third case': model and code agree
    # and both are wrong would show here, independent of the model)
    bad = 0
    sample = streams[0][1] + rng.sample(streams[1][1], min(len(streams[1][1]), 20000 if quick else 200000)) \
        + rng.sample(streams[2][1], min(len(streams[2][1]), 5000 if quick else 100000))
    first_bad = {}
    for rq in sample:
        ia, iv, ra = impl_vs_ref(gu, rq)
        if iv != ra:
            bad += 1
            first_bad.setdefault(rq["op"], (rq, ia, ra))
    run.cov["impl_vs_definition_checked"] = len(sample)
    run.cov["impl_vs_definition_differ"] = bad
    if all_diffs:
        search_failing_input(run, gu, [d[1:] for d in all_diffs], "graph_utils vs Model/Graph")
    else:
        for op, (rq, ia, ra) in sorted(first_bad.items()):
            run.violation({"kind": "failing-input", "request": rq, "implementation": ia, "definition": ra,
                           "note": "model and implementation agree, both differ from the definition"},
                          signature="%s:impl-differs-from-definition" % op)
    if not proofs_ok and not run.violations:
        run.violation({"kind": "broken-proof", "obligations": run.broken}, signature="proof", no_input=True)


def replay(run, rp):
    import src.graph_utils as gu
    rq = rp["request"]
    ia, iv, ra = impl_vs_ref(gu, rq)
    run.count({"request": rq, "answer": ia})
    run.cov["rule"] = "replay of one request"
    run.log("implementation:", ia, "definition:", ra)
    m = canon_model(rq, common.run_driver([rq])[0].get("r"))
    if iv != ra:
        run.violation({"kind": "failing-input", "request": rq, "implementation": ia, "definition": ra},
                      signature="%s:impl-differs-from-definition" % rq["op"])
    elif m != ia:
        run.violation({"kind": "broken-correspondence", "request": rq, "implementation": ia, "model": m},
                      signature="%s:model-differs" % rq["op"], no_input=True)
