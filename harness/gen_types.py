"""Random completed class tables and types over them, built with the *real* classes of
src/ir/types.py (so that supertypes of instantiations are whatever `TypeConstructor.new`
computes).  Every choice comes from the `random.Random` passed in."""
import src.ir.types as tp

NAMES = ["Foo", "Bar", "Baz", "Qux", "Lst", "Box", "Pair", "Node", "Tree", "Cell", "Wrap", "Hold"]
TVN = ["T", "X", "Y", "Z", "W", "K", "V"]


def factory(lang):
    if lang == "java":
        import src.ir.java_types as m
        return m.JavaBuiltinFactory()
    if lang == "kotlin":
        import src.ir.kotlin_types as m
        return m.KotlinBuiltinFactory()
    if lang == "groovy":
        import src.ir.groovy_types as m
        return m.GroovyBuiltinFactory()
    import src.ir.scala_types as m
    return m.ScalaBuiltinFactory()


LANGS = ["java", "kotlin", "groovy", "scala"]


class Table:
    """a class table: built-ins of one language, simple classes, generic classes"""

    def __init__(self, rng, lang=None, nclasses=None, pbound=0.35, pvariance=0.4, maxparams=3):
        self.rng = rng
        self.lang = lang or rng.choice(LANGS)
        self.bt = factory(self.lang)
        self.builtins = [t for t in self.bt.get_non_nothing_types() if not t.is_type_constructor()]
        self.builtin_cons = [t for t in self.bt.get_non_nothing_types() if t.is_type_constructor()]
        self.any = self.bt.get_any_type()
        self.simple = []      # SimpleClassifier
        self.cons = []        # TypeConstructor
        self.pbound, self.pvariance, self.maxparams = pbound, pvariance, maxparams
        n = nclasses if nclasses is not None else rng.randint(1, 6)
        names = rng.sample(NAMES, min(n, len(NAMES)))
        for nm in names:
            if rng.random() < 0.45:
                self._mk_simple(nm)
            else:
                self._mk_generic(nm)

    # ---- ground types over the table built so far --------------------------------------
    def boxed_builtins(self):
        return [t for t in self.builtins if not getattr(t, "primitive", False)]

    def ground(self, depth=2, allow_wild=True, scope=()):
        """a type without bare constructors; may mention the type variables in `scope`"""
        rng = self.rng
        choices = ["b", "b"]
        if self.simple:
            choices += ["s", "s"]
        if (self.cons or self.builtin_cons) and depth > 0:
            choices += ["p", "p", "p"]
        if scope:
            choices += ["v", "v"]
        c = rng.choice(choices)
        if c == "b":
            return rng.choice(self.boxed_builtins())
        if c == "s":
            return rng.choice(self.simple)
        if c == "v":
            return rng.choice(scope)
        con = rng.choice(self.cons + self.builtin_cons[:1]) if self.cons else rng.choice(self.builtin_cons)
        return self.inst(con, depth - 1, allow_wild, scope)

    def arg(self, depth, allow_wild, scope, tparam=None):
        rng = self.rng
        r = rng.random()
        if allow_wild and r < 0.3:
            k = rng.random()
            if k < 0.2:
                return tp.WildCardType()
            b = self.ground(depth, allow_wild, scope)
            return tp.WildCardType(b, tp.Covariant if k < 0.65 else tp.Contravariant)
        return self.ground(depth, allow_wild, scope)

    def inst(self, con, depth=1, allow_wild=True, scope=()):
        args = [self.arg(depth, allow_wild, scope, p) for p in con.type_parameters]
        return con.new(args)

    # ---- class creation ------------------------------------------------------------------
    def _supertypes(self, scope, nmax=2):
        rng = self.rng
        sups = []
        k = rng.choice([0, 1, 1, 1, 2]) if nmax >= 2 else rng.choice([0, 1])
        for _ in range(k):
            r = rng.random()
            if r < 0.2:
                t = self.any
            elif r < 0.5 and self.simple:
                t = rng.choice(self.simple)
            elif self.cons:
                con = rng.choice(self.cons)
                # arguments: own type parameters (direct or nested) or ground types, no wildcards
                args = []
                for _p in con.type_parameters:
                    q = rng.random()
                    if scope and q < 0.5:
                        args.append(rng.choice(scope))
                    elif scope and q < 0.7 and self.cons:
                        inner = rng.choice(self.cons)
                        args.append(inner.new([rng.choice(scope) if rng.random() < 0.7
                                               else self.ground(0, False) for _ in inner.type_parameters]))
                    else:
                        args.append(self.ground(1, False))
                t = con.new(args)
            else:
                t = self.any
            if not any(t == s for s in sups):
                sups.append(t)
        return sups

    def _mk_simple(self, nm):
        self.simple.append(tp.SimpleClassifier(nm, self._supertypes(())))

    def _mk_generic(self, nm):
        rng = self.rng
        k = rng.randint(1, self.maxparams)
        names = rng.sample(TVN, k)
        params = []
        for pn in names:
            var = tp.Invariant
            if rng.random() < self.pvariance and self.lang in ("kotlin", "scala"):
                var = rng.choice([tp.Covariant, tp.Contravariant])
            bound = None
            if rng.random() < self.pbound:
                q = rng.random()
                if params and q < 0.3:
                    bound = rng.choice(params)
                elif params and q < 0.5 and self.cons:
                    inner = rng.choice(self.cons)
                    bound = inner.new([rng.choice(params) if rng.random() < 0.7 else self.ground(0, False)
                                       for _ in inner.type_parameters])
                else:
                    bound = self.ground(1, False)
            params.append(tp.TypeParameter(pn, var, bound))
        self.cons.append(tp.TypeConstructor(nm, params, self._supertypes(tuple(params))))

    # ---- query types -----------------------------------------------------------------------
    def scope_vars(self):
        """type variables that could be in scope somewhere: parameters of the classes plus
        a few function-level ones"""
        vs = [p for c in self.cons for p in c.type_parameters]
        rng = self.rng
        for nm in ("F_A", "F_B"):
            b = None
            if rng.random() < 0.5:
                b = self.ground(1, False)
            vs.append(tp.TypeParameter(nm, tp.Invariant, b))
        return vs

    def any_type(self, depth=2, malformed=False):
        """a type of any shape, including bare constructors, type variables, primitives,
        Nothing; `malformed` adds ill-formed shapes (wildcards outside argument position,
        bounded invariant wildcards, projections contradicting declaration-site variance)"""
        rng = self.rng
        r = rng.random()
        scope = tuple(self.scope_vars())
        if r < 0.08:
            return rng.choice(self.builtins)            # may be primitive
        if r < 0.13 and (self.cons or self.builtin_cons):
            return rng.choice(self.cons + self.builtin_cons)
        if r < 0.2:
            return rng.choice(scope)
        if r < 0.23:
            try:
                return rng.choice([tp.Nothing, self.bt.get_nothing()])
            except NotImplementedError:
                return tp.Nothing
        if malformed and r < 0.3:
            k = rng.random()
            b = self.ground(1, True, scope)
            return tp.WildCardType(b, rng.choice([tp.Invariant, tp.Covariant, tp.Contravariant])) if k < 0.8 \
                else tp.WildCardType()
        return self.ground(depth, True, scope if rng.random() < 0.4 else ())

    def supertype_of(self, t):
        """some element of the supertypes closure (as the code computes it)"""
        try:
            return self.rng.choice(sorted(t.get_supertypes(), key=str))
        except Exception:
            return t

    def related_variant(self, t):
        """a type derived from `t` so that a subtype answer in one direction is likely:
        go to a supertype, or change one argument along/against its variance, or project it"""
        rng = self.rng
        if not isinstance(t, tp.ParameterizedType) or rng.random() < 0.35:
            return self.supertype_of(t)
        args = list(t.type_args)
        i = rng.randrange(len(args))
        a = args[i]
        k = rng.random()
        if isinstance(a, tp.WildCardType):
            if a.bound is not None and k < 0.5:
                args[i] = tp.WildCardType(self.supertype_of(a.bound), a.variance)
            elif k < 0.75:
                args[i] = tp.WildCardType()
            else:
                args[i] = a.bound if a.bound is not None else self.ground(1)
        else:
            if k < 0.3:
                args[i] = tp.WildCardType(self.supertype_of(a), tp.Covariant)
            elif k < 0.5:
                args[i] = tp.WildCardType(a, tp.Contravariant)
            elif k < 0.6:
                args[i] = tp.WildCardType()
            elif k < 0.8:
                args[i] = self.supertype_of(a)
            else:
                args[i] = self.related_variant(a)
        try:
            return t.t_constructor.new(args)
        except Exception:
            return t
