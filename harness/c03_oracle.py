"""C03 — specification-side judge of "each removed annotation is what a compiler infers from the
remaining program": a small type checker WITH LOCAL INFERENCE over the by-value export of a program
(harness/export_ast.py), independent of `src/analysis/type_dependency_analysis.py`.

It reads only the program that is there: a declaration without declared type gets the type
synthesised from its initializer (no expected type flows into the initializer); an expression-bodied
function without declared return type gets the type synthesised from its body (a recursive use is
not inferable); a constructor call / call of a parameterized function whose explicit type arguments
are absent (`canInfer`) must have every type parameter determined, in this order, by (1) the
arguments whose type can be synthesised without an expected type, (2) the expected type of the
call — only if there IS one: the declared type of the enclosing declaration when it is still
present, the declared parameter / field type in argument position, nothing at all in receiver
position, operands of `==` and conditions —, (3) the remaining arguments checked against the
parameter types so far, (4) for a parameter bounded by another type parameter, its bound.  After that the
program is checked: initializers, arguments, assigned values, branches and returned values must be
subtypes (nominal, invariant type arguments) of what their position expects.

Fragment: no wildcards / use-site variance, no lambdas, function references, arrays, `is`; anything
else is answered `outside` (counted, never judged).

judge(export) -> {"verdict": "ok" | "cannot-infer" | "ill-typed" | "outside", "what": …, "where": …,
                  "shape": …, "inferred": {path: type} for the declarations without declared type}
"""


class Outside(Exception):
    pass


class Reject(Exception):
    def __init__(self, verdict, shape, what, where):
        Exception.__init__(self, what)
        self.verdict, self.shape, self.what, self.where = verdict, shape, what, where


def show(t):
    if t is None:
        return "?"
    if t[0] == "p":
        return "%s<%s>" % (t[1], ", ".join(show(a) for a in t[2]))
    if t[0] == "nothing":
        return "Nothing"
    return t[1]


class Checker:
    def __init__(self, export):
        self.ex = export
        self.tt = export["tt"]
        self._conv = {}
        self.nominal_sups = {}
        self.top = None
        for i, e in enumerate(self.tt):
            if e["k"] in ("b", "s"):
                self.nominal_sups.setdefault(e["name"], [self.ty(s) for s in e["sups"]])
                if e["k"] == "b" and not e["sups"] and not e.get("nothing") and e["name"] in ("Any", "Object"):
                    self.top = e["name"]
        self.classes = {d["name"]: d for d in export["decls"] if d["n"] == "class"}
        self.funcs = {d["name"]: d for d in export["decls"] if d["n"] == "func"}
        self.globals = {}
        self.fun_ret = {}       # id(func node) -> inferred return type / "busy"
        self.inferred = {}
        self.pos = []           # position stack for shapes

    # ---------------------------------------------------------------- types
    def ty(self, i):
        if i is None:
            return None
        if i in self._conv:
            return self._conv[i]
        e = self.tt[i]
        k = e["k"]
        if k in ("b", "s"):
            r = ("n", e["name"])
        elif k == "v":
            r = ("v", e["name"])
        elif k == "p":
            r = ("p", e["name"], tuple(self.ty(a) for a in e["args"]))
        elif k == "c":
            r = ("c", e["name"])
        elif k == "n":
            r = ("nothing",)
        else:
            raise Outside("type kind " + k)
        self._conv[i] = r
        return r

    def bound_of(self, i):
        e = self.tt[i]
        return self.ty(e["bound"]) if e["k"] == "v" else None

    def subst(self, t, m):
        if t is None:
            return None
        if t[0] == "v":
            return m.get(t[1], t)
        if t[0] == "p":
            return ("p", t[1], tuple(self.subst(a, m) for a in t[2]))
        return t

    def free(self, t, names):
        if t[0] == "v":
            return t[1] in names
        if t[0] == "p":
            return any(self.free(a, names) for a in t[2])
        return False

    def tparams(self, decl):
        return [self.tt[i]["name"] for i in decl["tparams"]]

    def sups(self, t):
        if t[0] == "n":
            if t[1] in self.classes:
                return [self.ty(s["t"]) for s in self.classes[t[1]]["supers"]]
            return self.nominal_sups.get(t[1], [])
        if t[0] == "p":
            c = self.classes.get(t[1])
            if c is None:
                raise Outside("parameterized builtin " + t[1])
            m = dict(zip(self.tparams(c), t[2]))
            return [self.subst(self.ty(s["t"]), m) for s in c["supers"]]
        return []

    def is_top(self, t):
        return t[0] == "n" and t[1] == self.top

    def subtype(self, a, b):
        if a == b or self.is_top(b) or a[0] == "nothing":
            return True
        return any(self.subtype(s, b) for s in self.sups(a))

    def as_instance_of(self, t, head):
        """the supertype of t (or t) whose class is `head`, or None"""
        if t[0] == "p" and t[1] == head:
            return t
        for s in self.sups(t):
            r = self.as_instance_of(s, head)
            if r is not None:
                return r
        return None

    # ---------------------------------------------------------------- members
    def member(self, t, kind, name):
        """(declaration node, type map of the class it was found in) by walking the hierarchy"""
        if t[0] == "v":
            raise Outside("member of a type variable")
        c = self.classes.get(t[1]) if t[0] in ("n", "p") else None
        if c is None:
            raise Outside("member of " + show(t))
        for m in c["fields" if kind == "field" else "funcs"]:
            if m["name"] == name:
                return m, dict(zip(self.tparams(c), t[2] if t[0] == "p" else ()))
        for s in self.sups(t):
            try:
                return self.member(s, kind, name)
            except Outside:
                pass
        raise Outside("no member %s in %s" % (name, show(t)))

    # ---------------------------------------------------------------- inference of type arguments
    def match(self, formal, actual, names, asg):
        if formal[0] == "v" and formal[1] in names:
            asg.setdefault(formal[1], actual)
        elif formal[0] == "p" and self.free(formal, names):
            inst = self.as_instance_of(actual, formal[1])
            if inst is not None:
                for f, a in zip(formal[2], inst[2]):
                    self.match(f, a, names, asg)

    def match_ret(self, ret, expected, names, asg):
        """the declared result type `ret` (over the type parameters `names`) must fit `expected`"""
        if ret[0] == "v" and ret[1] in names:
            asg.setdefault(ret[1], expected)
        elif ret[0] == "p" and expected[0] == "p":
            inst = self.as_instance_of(ret, expected[1])
            if inst is not None:
                for r, e in zip(inst[2], expected[2]):
                    if r[0] == "v" and r[1] in names:
                        asg.setdefault(r[1], e)
                    elif r[0] == "p" and e[0] == "p" and r[1] == e[1]:
                        self.match_ret(r, e, names, asg)

    def solve(self, what, names, bounds, formals, args, ret, expected, env):
        """type arguments of a call without explicit ones"""
        asg = {}
        later = []
        for f, a in zip(formals, args):
            if not self.free(f, names):
                continue
            try:
                self.pos.append("argument")
                at = self.infer(a, env, None)
            except Reject as r:
                if r.verdict != "cannot-infer":
                    raise
                later.append((f, a))
                continue
            finally:
                self.pos.pop()
            self.match(f, at, names, asg)
        if expected is not None:
            self.match_ret(ret, expected, names, asg)
        for f, a in later:
            if any(self.free(f, [n]) and n not in asg for n in names):
                continue
            self.pos.append("argument")
            try:
                at = self.infer(a, env, self.subst(f, asg))
            finally:
                self.pos.pop()
            self.match(f, at, names, asg)
        for n in names:
            if n not in asg and bounds.get(n) is not None and not self.free(self.subst(bounds[n], asg), names):
                asg[n] = self.subst(bounds[n], asg)
        missing = [n for n in names if n not in asg]
        if missing:
            src = "no expected type" if expected is None else "expected type %s" % show(expected)
            raise Reject("cannot-infer", "%s:%s:%s" % (what, "/".join(self.pos) or "top",
                                                       "no-expected-type" if expected is None else "expected-type-does-not-determine"),
                         "type parameter %s of %s is determined neither by the arguments nor by the context (%s)"
                         % (", ".join(missing), what, src), list(self.pos))
        return asg

    # ---------------------------------------------------------------- expressions
    def lookup(self, env, name):
        for scope in reversed(env):
            if name in scope:
                return scope[name]
        if name in self.globals:
            return self.globals[name]
        raise Outside("unbound variable " + name)

    def func_ret(self, f, m=None):
        """declared or synthesised result type of a function declaration"""
        if f["retType"] is not None:
            return self.ty(f["retType"])
        key = id(f)
        if self.fun_ret.get(key) == "busy":
            raise Reject("cannot-infer", "return-type:recursive-use", "the result type of %s is omitted and "
                         "used recursively" % f["name"], ["func", f["name"]])
        if key not in self.fun_ret:
            raise Outside("use of function %s before its result type is known" % f["name"])
        return self.fun_ret[key]

    def check_args(self, what, formals, args, env):
        if len(formals) != len(args):
            raise Outside("arity of " + what)
        for f, a in zip(formals, args):
            self.pos.append("argument")
            try:
                at = self.infer(a, env, f)
            finally:
                self.pos.pop()
            if not self.subtype(at, f):
                raise Reject("ill-typed", "argument:%s" % what.split(" ")[0], "argument of %s has type %s, expected %s"
                             % (what, show(at), show(f)), list(self.pos))

    def infer(self, e, env, expected):
        k = e["n"]
        if k == "arg":
            return self.infer(e["expr"], env, expected)
        if k == "string":
            return ("n", "String")
        if k in ("int", "real"):
            if e["t"] is None:
                raise Outside("untyped literal")
            return self.ty(e["t"])
        if k == "bool":
            return ("n", "Boolean")
        if k == "char":
            return ("n", "Char")
        if k == "bottom":
            if e["t"] is None:
                raise Outside("untyped bottom")
            return self.ty(e["t"])
        if k == "variable":
            return self.lookup(env, e["name"])
        if k == "binop":
            for side in ("l", "r"):
                self.pos.append("operand")
                try:
                    self.infer(e[side], env, None)
                finally:
                    self.pos.pop()
            return ("n", "Boolean")
        if k == "cond":
            self.pos.append("condition")
            try:
                self.infer(e["c"], env, None)
            finally:
                self.pos.pop()
            ts = []
            for side in ("t", "f"):
                self.pos.append("branch")
                try:
                    ts.append(self.infer(e[side], env, expected))
                finally:
                    self.pos.pop()
            if expected is not None:
                for t in ts:
                    if not self.subtype(t, expected):
                        raise Reject("ill-typed", "branch", "branch of type %s where %s is expected"
                                     % (show(t), show(expected)), list(self.pos))
                return ts[0] if ts[0] == ts[1] else expected
            if ts[0] == ts[1] or self.subtype(ts[1], ts[0]):
                return ts[0]
            if self.subtype(ts[0], ts[1]):
                return ts[1]
            raise Outside("least upper bound of branches")
        if k == "new":
            return self.infer_new(e, env, expected)
        if k == "fieldaccess":
            self.pos.append("receiver")
            try:
                rt = self.infer(e["e"], env, None)
            finally:
                self.pos.pop()
            f, m = self.member(rt, "field", e["field"])
            return self.subst(self.ty(f["t"]), m)
        if k == "call":
            return self.infer_call(e, env, expected)
        if k == "block":
            return self.block(e, env, expected)
        if k == "assign":
            self.assign(e, env)
            return ("n", "Unit")
        raise Outside("expression " + k)

    def infer_new(self, e, env, expected):
        t = self.ty(e["t"])
        if t[0] == "n" and t[1] not in self.classes:
            return t      # `Any()` and the like
        c = self.classes.get(t[1])
        if c is None:
            raise Outside("constructor of " + show(t))
        names = self.tparams(c)
        fields = [self.ty(f["t"]) for f in c["fields"]]
        if len(fields) != len(e["args"]):
            raise Outside("constructor arity")
        if t[0] == "p" and e["canInfer"]:
            bounds = {self.tt[i]["name"]: self.bound_of(i) for i in c["tparams"]}
            ret = ("p", t[1], tuple(("v", n) for n in names))
            asg = self.solve("constructor-call", names, bounds, fields, e["args"], ret, expected, env)
            t = self.subst(ret, asg)
        m = dict(zip(names, t[2])) if t[0] == "p" else {}
        self.check_args("constructor " + t[1], [self.subst(f, m) for f in fields], e["args"], env)
        return t

    def infer_call(self, e, env, expected):
        m = {}
        if e["receiver"] is None:
            f = None
            for scope in reversed(env):
                if ("fun", e["func"]) in scope:
                    f = scope[("fun", e["func"])]
                    break
            if f is None:
                f = self.funcs.get(e["func"])
            if f is None:
                raise Outside("unknown function " + e["func"])
        else:
            self.pos.append("receiver")
            try:
                rt = self.infer(e["receiver"], env, None)
            finally:
                self.pos.pop()
            f, m = self.member(rt, "func", e["func"])
        names = self.tparams(f)
        formals = [self.subst(self.ty(p["t"]), m) for p in f["params"]]
        ret = self.func_ret(f)
        ret = self.subst(ret, m)
        if names:
            if e["canInfer"] or not e["targs"]:
                bounds = {self.tt[i]["name"]: self.bound_of(i) for i in f["tparams"]}
                asg = self.solve("call-type-arguments", names, bounds, formals, e["args"], ret, expected, env)
            else:
                asg = dict(zip(names, [self.ty(a) for a in e["targs"]]))
            formals = [self.subst(x, asg) for x in formals]
            ret = self.subst(ret, asg)
        self.check_args("call " + e["func"], formals, e["args"], env)
        return ret

    # ---------------------------------------------------------------- statements and declarations
    def assign(self, e, env):
        if e["receiver"] is None:
            target = self.lookup(env, e["name"])
        else:
            self.pos.append("receiver")
            try:
                rt = self.infer(e["receiver"], env, None)
            finally:
                self.pos.pop()
            f, m = self.member(rt, "field", e["name"])
            target = self.subst(self.ty(f["t"]), m)
        self.pos.append("assigned-value")
        try:
            t = self.infer(e["expr"], env, target)
        finally:
            self.pos.pop()
        if not self.subtype(t, target):
            raise Reject("ill-typed", "assignment", "assigned value of type %s to %s of type %s"
                         % (show(t), e["name"], show(target)), list(self.pos))

    def var(self, d, env, path):
        declared = self.ty(d["varType"])
        self.pos.append("initializer-of-typed-declaration" if declared is not None
                        else "initializer-of-untyped-declaration")
        try:
            t = self.infer(d["expr"], env, declared)
        finally:
            self.pos.pop()
        if declared is not None:
            if not self.subtype(t, declared):
                raise Reject("ill-typed", "initializer", "initializer of %s has type %s, declared %s"
                             % (d["name"], show(t), show(declared)), path)
            return declared
        self.inferred[path] = t
        return t

    def block(self, b, env, expected, is_fun_body=False):
        env = env + [{}]
        last = None
        n = len(b["body"])
        for i, s in enumerate(b["body"]):
            is_last = i == n - 1
            if s["n"] == "var":
                env[-1][s["name"]] = self.var(s, env, "%s/%s" % ("/".join(self.path), s["name"]))
                last = ("n", "Unit")
            elif s["n"] == "func":
                env[-1][("fun", s["name"])] = s
                self.func(s, env)
                last = ("n", "Unit")
            elif s["n"] == "assign":
                self.assign(s, env)
                last = ("n", "Unit")
            else:
                if is_last and expected is not None:
                    self.pos.append("returned-value")
                try:
                    last = self.infer(s, env, expected if is_last else None)
                finally:
                    if is_last and expected is not None:
                        self.pos.pop()
        return last

    def is_void(self, t):
        return t is not None and t[0] == "n" and t[1] in ("Unit", "void", "Void")

    def func(self, f, env, this=None):
        self.path.append(f["name"])
        try:
            scope = {}
            for p in f["params"]:
                scope[p["name"]] = self.ty(p["t"])
                if p["default"] is not None:
                    raise Outside("default parameter value")
            env = env + [scope]
            declared = self.ty(f["retType"])
            body = f["body"]
            if body is None:
                return
            key = id(f)
            if declared is None:
                self.fun_ret[key] = "busy"
            if body["n"] == "block":
                if declared is None:
                    raise Outside("block body without declared result type")
                want = None if self.is_void(declared) else declared
                t = self.block(body, env, want)
                if want is not None and (t is None or not self.subtype(t, want)):
                    raise Reject("ill-typed", "returned-value", "function %s returns %s, declared %s"
                                 % (f["name"], show(t), show(want)), list(self.path))
                return
            self.pos.append("body-of-function-with-declared-result" if declared is not None
                            else "body-of-function-without-declared-result")
            try:
                t = self.infer(body, env, None if declared is None or self.is_void(declared) else declared)
            finally:
                self.pos.pop()
            if declared is None:
                self.fun_ret[key] = t
                self.inferred["/".join(self.path)] = t
            elif not self.is_void(declared) and not self.subtype(t, declared):
                raise Reject("ill-typed", "returned-value", "function %s returns %s, declared %s"
                             % (f["name"], show(t), show(declared)), list(self.path))
        finally:
            self.path.pop()

    def program(self):
        self.path = []
        # declarations in order; one that needs the synthesised result type of a function (or the type of
        # a global) not yet processed is postponed (callees before callers)
        pending = list(self.ex["decls"])
        while pending:
            rest = []
            for d in pending:
                try:
                    self.top_level(d)
                except Outside as o:
                    if "before its result type is known" in str(o) or "unbound variable" in str(o):
                        self.fun_ret.pop(id(d), None)
                        rest.append(d)
                    else:
                        raise
            if len(rest) == len(pending):
                raise Outside("mutually dependent omitted types")
            pending = rest

    def top_level(self, d):
        if d["n"] == "var":
            self.globals[d["name"]] = self.var(d, [], d["name"])
        elif d["n"] == "func":
            self.func(d, [])
        elif d["n"] == "class":
            self.path.append(d["name"])
            try:
                scope = {f["name"]: self.ty(f["t"]) for f in d["fields"]}
                for f in sorted(d["funcs"], key=lambda f: f["retType"] is not None):
                    self.func(f, [scope])
            finally:
                self.path.pop()


def judge(export):
    c = Checker(export)
    try:
        c.program()
    except Outside as o:
        return {"verdict": "outside", "what": str(o)}
    except Reject as r:
        return {"verdict": r.verdict, "shape": r.shape, "what": r.what, "where": r.where}
    except RecursionError:
        return {"verdict": "outside", "what": "recursion limit"}
    return {"verdict": "ok", "inferred": {k: show(v) for k, v in c.inferred.items()}}
