"""C05 — DIRECT decision-point stream: the real `Generator` driven in crafted contexts.

No whole-program generation: a case builds a small Context with the real classes (`Context`, `ast.*`, `tp.*`),
enters a chain of FRAMES through the real entry points (`gen_func_decl` for a top-level function / a method of the
parameterized class `Cls<N, U>` / a nested function, `gen_lambda` for a lambda — these set `namespace`, `depth`,
`_inside_java_lambda` themselves), and inside the innermost frame — at the moment the real code asks for the body
(`_gen_func_body` of the instance is replaced for exactly the frames of the chain) — calls a SCRIPT of real decision
points (`_gen_matching_func`, `_gen_matching_class`, `gen_func_call`, `gen_variable`, `gen_assignment`, `gen_lambda`,
…, and the candidate lists `_get_assignable_vars` / `_get_matching_objects` / `_get_vars_of_function_types`, of which
EVERY candidate is judged, not only the one a coin would pick) for an expected type of a given SHAPE (bare type
variable, parameterized type with type variables at depth 1 and 2, function type over a type variable, ground types).
The body is then assembled as `_gen_func_body` assembles it (declarations of the namespace, then the expressions).

Judged on the RESULT STATE:
  * the fragment (`ast.Program(context)`) is exported and handed to the verified `closed.check` and to
    `closed.capture` by the caller (check_C05);
  * `frame`   : after every decision point `namespace`, `_inside_java_lambda` (and `declaration_namespace`,
                `_in_super_call`) equal their values before the call;
  * `tvscope` : specification-side, on the live declarations: every type variable in the signature of every
                declaration the case created (helper functions and classes, their parameters, fields, bounds, locals)
                is introduced by an enclosing class / function declaration, found by walking the namespace of the
                declaration through the DECLARATIONS (not through `Context.get_types`);
  * `capture` : specification-side (Java): a `Variable` / unqualified `Assignment` produced inside a lambda or nested
                function that denotes a local of an enclosing function body: the local is final (reference) / never
                (assignment).
`(lang, seed, switches, max_depth, host, frames, script, knobs)` is a replay."""
import itertools

import pipeline

HOSTS = ("method", "pfunc", "func")
# frame chains below the host: n = nested function, l = lambda
CHAINS = ("", "n", "l", "nl", "ll", "ln", "nn", "lln")
SHAPES_TV = ("tv", "box_tv", "two_tv", "box_box_tv", "two_box_tv", "fun_tv")
SHAPES_GROUND = ("int", "string", "box_int", "fun_int")
# decision points: name -> (needs a type?, produces an expression?)
OPS = ("matching_func", "matching_class_fun", "matching_class_fld", "func_call", "func_call_plain", "func_call_ref",
       "field_access", "variable", "new", "lambda", "lambda_free", "conditional", "is_expr", "assignment", "expr",
       "var_decl", "func_decl", "func_ref", "assignable_all", "objects_all", "funvars_all", "side_effects")
PREFIX_OPS = ("lambda", "lambda_free", "func_decl", "func_call_plain", "new", "conditional", "is_expr", "var_decl",
              "func_ref", "expr", "assignment")
CONSUMER_OPS = ("variable", "assignment", "assignable_all", "objects_all", "funvars_all", "func_call_ref",
                "func_call", "field_access", "side_effects", "expr")
TV_OPS = ("matching_func", "matching_class_fun", "matching_class_fld", "func_call", "func_call_plain", "field_access",
          "variable", "new", "lambda", "conditional", "expr", "var_decl", "func_decl", "func_ref")

KNOB_DEFAULTS = {"func_ref_call": 1.0, "func_ref": 0.5, "function_expr": 1.0, "sam_coercion": 1.0,
                 "max_side_effects": 1, "max_var_decls": 3, "max_params": 2}


class _St:
    pass


def _apply_knobs(knobs):
    from src.generators.config import cfg
    k = dict(KNOB_DEFAULTS)
    k.update(knobs or {})
    cfg.prob.func_ref_call = k["func_ref_call"]
    cfg.prob.func_ref = k["func_ref"]
    cfg.prob.function_expr = k["function_expr"]
    cfg.prob.sam_coercion = k["sam_coercion"]
    cfg.limits.fn.max_side_effects = k["max_side_effects"]
    cfg.limits.max_var_decls = k["max_var_decls"]
    cfg.limits.fn.max_params = k["max_params"]


def reset_knobs():
    _apply_knobs({})


def fresh_generator(lang, seed, switches, max_depth, knobs=None):
    pipeline.setup()
    from src import utils
    from src.generators.generator import Generator
    from src.ir.context import Context
    pipeline.configure(lang, switches, max_depth)
    _apply_knobs(knobs)
    pipeline._STATE["cnt"]["c"] = itertools.count(1)
    utils.random.r.seed(seed)
    utils.random.reset_word_pool()
    gen = Generator(language=lang, logger=None, options={})
    gen.context = Context()
    return gen


# ------------------------------------------------------------------ the crafted context
def build_classes(gen, st):
    """Box<T>{var boxv: T}, Two<A, B>{val fst: A; var snd: B}, Plain{var cnt: Int}, Cls<N, U>{val fld: N} — regular
    classes registered the way gen_class_decl / gen_class_fields register them"""
    from src.ir import ast, types as tp
    G = ast.GLOBAL_NAMESPACE

    def mk(name, tparams, fields):
        tps = [tp.TypeParameter(n) for n in tparams]
        cls = ast.ClassDeclaration(name, class_type=ast.ClassDeclaration.REGULAR, superclasses=[],
                                   type_parameters=tps, is_final=False, fields=[], functions=[])
        gen._add_node_to_parent(G, cls)
        for t in tps:
            gen.context.add_type(G + (name,), t.name, t)
        for fname, ft, fin in fields:
            ftype = tps[ft] if isinstance(ft, int) else ft
            f = ast.FieldDeclaration(fname, ftype, is_final=fin, can_override=False)
            gen._add_node_to_parent(G + (name,), f)
        return cls, tps
    st.int_t = gen.bt_factory.get_integer_type()
    st.str_t = gen.bt_factory.get_string_type()
    st.box, _ = mk("Box", ["T"], [("boxv", 0, False)])
    st.two, _ = mk("Two", ["A", "B"], [("fst", 0, True), ("snd", 1, False)])
    st.plain, _ = mk("Plain", [], [("cnt", st.int_t, False)])
    st.cls, st.cls_tps = mk("Cls", ["N", "U"], [("fld", 0, True)])


def shape_type(gen, st, shape, tv):
    from src.ir import types as tp
    box, two = st.box.get_type(), st.two.get_type()
    if shape == "tv":
        return tv
    if shape == "box_tv":
        return box.new([tv])
    if shape == "two_tv":
        return two.new([tv, st.int_t])
    if shape == "box_box_tv":
        return box.new([box.new([tv])])
    if shape == "two_box_tv":
        return two.new([st.str_t, box.new([tv])])
    if shape == "fun_tv":
        return tp.ParameterizedType(gen.bt_factory.get_function_type(1), [st.int_t, tv])
    if shape == "int":
        return st.int_t
    if shape == "string":
        return st.str_t
    if shape == "box_int":
        return box.new([st.int_t])
    if shape == "fun_int":
        return tp.ParameterizedType(gen.bt_factory.get_function_type(1), [st.str_t, st.int_t])
    raise ValueError(shape)


def frame_state(gen):
    return {"namespace": tuple(gen.namespace), "_inside_java_lambda": bool(gen._inside_java_lambda),
            "declaration_namespace": gen.declaration_namespace, "_in_super_call": bool(gen._in_super_call)}


def make_locals(gen, st, tv):
    """locals of a frame, created by the real gen_variable_decl, finality forced (as gen_assignment forces it):
    a `var` Int, a `val` Int, a `var` of function type, a `var` Box<Int> (a class with a non-final field), and where a
    type variable is in scope a `var` of that type"""
    plan = [("int", False), ("int", True), ("fun_int", False), ("box_int", False)]
    if tv is not None:
        plan.append(("tv", False))
    for shape, fin in plan:
        t = shape_type(gen, st, shape, tv)
        d = gen.gen_variable_decl(t, only_leaves=True)
        d.is_final = fin
        d.var_type = d.get_type()
        gen._vars_in_context[gen.namespace] += 1


# ------------------------------------------------------------------ decision points
def run_op(gen, st, op, etype, exprs):
    """one real decision point; expressions it yields are appended to `exprs` (statements of the body)"""
    from src.ir import ast
    void = gen.bt_factory.get_void_type()
    out = None
    sab = st.case.get("sabotage")
    if op == "matching_func" and sab == "helper-at-top-level":
        # negative control: the helper is declared at top level whatever its type mentions
        ns = gen.namespace
        gen.namespace = ast.GLOBAL_NAMESPACE
        gen.gen_func_decl(etype, not_void=True)
        gen.namespace = ns
    elif op == "matching_func":
        out = gen._gen_matching_func(etype, not_void=True)
        st.tally["helper:" + ("func" if out is not None and out.receiver_t is None else "class")] += 1
    elif op == "matching_class_fun":
        gen._gen_matching_class(etype, "functions")
        st.tally["helper:class"] += 1
    elif op == "matching_class_fld":
        gen._gen_matching_class(etype, "fields", not_void=True)
        st.tally["helper:class"] += 1
    elif op == "func_call":
        exprs.append(gen.gen_func_call(etype))
    elif op == "func_call_plain":
        exprs.append(gen._gen_func_call(etype))
    elif op == "func_call_ref":
        e = gen._gen_func_call_ref(etype, subtype=True)
        if e is not None:
            exprs.append(e)
            st.tally["ref_call"] += 1
    elif op == "field_access":
        exprs.append(gen.gen_field_access(etype))
    elif op == "variable":
        exprs.append(gen.gen_variable(etype))
    elif op == "new":
        exprs.append(gen.gen_new(etype))
    elif op == "lambda":
        exprs.append(gen.gen_lambda(etype=etype))
    elif op == "lambda_free":
        exprs.append(gen.gen_lambda())
    elif op == "conditional":
        exprs.append(gen.gen_conditional(etype))
    elif op == "is_expr":
        exprs.append(gen.gen_is_expr(gen.bt_factory.get_boolean_type()))
    elif op == "assignment":
        exprs.append(gen.gen_assignment(void))
    elif op == "expr":
        exprs.append(gen.generate_expr(etype))
    elif op == "var_decl":
        gen._vars_in_context[gen.namespace] += 1
        gen.gen_variable_decl(etype)
    elif op == "func_decl":
        gen.gen_func_decl(etype)
    elif op == "func_ref":
        sig = etype if getattr(etype, "is_function_type", lambda: False)() else \
            shape_type(gen, st, "fun_int", None)
        e = gen._gen_func_ref_lambda(sig)
        if e is not None:
            exprs.append(e)
    elif op == "assignable_all":
        for recv, var in gen._get_assignable_vars():
            exprs.append(ast.Assignment(var.name, ast.BottomConstant(None), receiver=recv))
            st.tally["assignable_candidate"] += 1
    elif op == "objects_all":
        for o in gen._get_matching_objects(etype, True, "fields"):
            exprs.append(ast.FieldAccess(o.receiver_expr, o.attr_decl.name))
            st.tally["object_candidate"] += 1
        for o in gen._get_matching_objects(etype, True, "functions"):
            exprs.append(o.receiver_expr)
            st.tally["object_candidate"] += 1
    elif op == "funvars_all":
        sig = shape_type(gen, st, "fun_int", None)
        for e in gen._get_vars_of_function_types(sig):
            exprs.append(e)
            st.tally["funvar_candidate"] += 1
    elif op == "side_effects":
        es, _ = gen._gen_side_effects()
        exprs.extend(es)
    else:
        raise ValueError(op)
    if sab == "flag-dropped-after-lambda" and op in ("lambda", "lambda_free"):
        gen._inside_java_lambda = False      # negative control: the flag is not restored


def run_script(gen, st, tv):
    exprs = []
    for i, (op, shape) in enumerate(st.case["script"]):
        if shape in SHAPES_TV and tv is None:
            shape = {"tv": "int", "box_tv": "box_int", "two_tv": "box_int", "box_box_tv": "box_int",
                     "two_box_tv": "box_int", "fun_tv": "fun_int"}[shape]
        etype = shape_type(gen, st, shape, tv)
        before = frame_state(gen)
        run_op(gen, st, op, etype, exprs)
        after = frame_state(gen)
        for k in before:
            if before[k] != after[k]:
                st.problems.append({"judge": "frame", "what": "state:not-restored:%s:after:%s" % (k, op), "step": i,
                                    "before": repr(before[k]), "after": repr(after[k])})
        st.tally["op:" + op] += 1
    return exprs


def assemble(gen, exprs, ret_type):
    """as _gen_func_body: the declarations of the namespace, the side effects, the result"""
    from src.ir import ast
    decls = [d for d in gen.context.get_declarations(gen.namespace, True).values()
             if not isinstance(d, ast.ParameterDeclaration)]
    void = gen.bt_factory.get_void_type()
    last = gen.generate_expr(ret_type if ret_type != void else gen.bt_factory.get_integer_type(), only_leaves=True)
    return ast.Block(decls + [e for e in exprs if e is not None] + [last])


def enter(gen, st, chain, tv):
    """the body of the current frame: locals, then either the next frame of the chain (entered through the real
    gen_func_decl / gen_lambda) or the script"""
    def body(ret_type):
        make_locals(gen, st, tv)
        exprs = []
        st.depth_flags.append(bool(gen._inside_java_lambda))
        if not chain:
            st.innermost_ns = tuple(gen.namespace)
            st.innermost_flag = bool(gen._inside_java_lambda)
            exprs = run_script(gen, st, tv)
        else:
            before = frame_state(gen)
            push_hook(gen, st, enter(gen, st, chain[1:], tv))
            if chain[0] == "n":
                gen.gen_func_decl(etype=st.int_t)
            else:
                lam = gen.gen_lambda(etype=st.int_t)
                gen._vars_in_context[gen.namespace] += 1
                gen.gen_variable_decl(lam.signature, expr=lam)
            after = frame_state(gen)
            for k in before:
                if before[k] != after[k]:
                    st.problems.append({"judge": "frame", "what": "state:not-restored:%s:after:frame-%s" % (k, chain[0]),
                                        "before": repr(before[k]), "after": repr(after[k])})
        return assemble(gen, exprs, ret_type)

    return body


def push_hook(gen, st, body, parent=None):
    """the next body the real code asks for DIRECTLY below `parent` (default: the current namespace) is `body`"""
    st.hooks.append((tuple(parent if parent is not None else gen.namespace), body))


def install_dispatch(gen, st):
    from src.generators.generator import Generator
    st.hooks = []

    def dispatch(ret_type):
        if st.hooks and tuple(gen.namespace[:-1]) == st.hooks[-1][0]:
            return st.hooks.pop()[1](ret_type)
        return Generator._gen_func_body(gen, ret_type)
    gen._gen_func_body = dispatch


# ------------------------------------------------------------------ specification-side judges (on the live objects)
def type_vars_of(t, acc):
    if t is None:
        return acc
    if t.is_type_var():
        acc.add(t.name)
        return acc
    if t.is_wildcard():
        return type_vars_of(getattr(t, "bound", None), acc)
    for a in getattr(t, "type_args", None) or []:
        type_vars_of(a, acc)
    return acc


def judge_tvscope(program, problems):
    """every type variable mentioned by a declaration (signature, bounds, declared types of locals, lambdas, `new`,
    explicit type arguments) is introduced by an enclosing class or function — a walk over the declarations"""
    from src.ir import ast

    def intro(d):
        return {t.name for t in (getattr(d, "type_parameters", None) or [])}

    def use(t, scope, where):
        bad = type_vars_of(t, set()) - scope
        if bad:
            problems.append({"judge": "tvscope", "what": "type-variable-out-of-scope", "where": where,
                             "vars": sorted(bad)})

    def visit(n, scope, path):
        if n is None:
            return
        if isinstance(n, ast.ClassDeclaration):
            sc = scope | intro(n)
            p = path + "/" + n.name
            for t in n.type_parameters or []:
                use(t.bound, sc, p + ":bound")
            for s in n.superclasses:
                use(s.class_type, sc, p + ":super")
                for a in s.args or []:
                    visit(a, sc, p)
            for f in n.fields:
                use(f.get_type(), sc, p + "/" + f.name)
            for f in n.functions:
                visit(f, sc, p)
            return
        if isinstance(n, ast.FunctionDeclaration):
            sc = scope | intro(n)
            p = path + "/" + n.name
            for t in n.type_parameters or []:
                use(t.bound, sc, p + ":bound")
            for q in n.params:
                use(q.get_type(), sc, p + ":param:" + q.name)
                visit(q.default, sc, p)
            use(n.ret_type, sc, p + ":ret")
            visit(n.body, sc, p)
            return
        if isinstance(n, ast.VariableDeclaration):
            use(n.var_type, scope, path + "/" + n.name + ":type")
        elif isinstance(n, ast.Lambda):
            for q in n.params:
                use(q.get_type(), scope, path + "/lambda:param")
            use(n.ret_type, scope, path + "/lambda:ret")
        elif isinstance(n, ast.New):
            use(n.class_type, scope, path + "/new")
        elif isinstance(n, ast.FunctionCall):
            for t in n.type_args or []:
                use(t, scope, path + "/call:" + n.func)
        for c in n.children():
            visit(c, scope, path)
    for d in program.get_declarations().values():
        visit(d, set(), "")


def judge_capture(program, problems, counts):
    """Java: inside a lambda / nested function a local of an ENCLOSING function body may be read only if it is
    declared final or is never assigned, and is never assigned (javac: effectively final)"""
    from src.ir import ast
    assigned = set()

    def collect(n):
        if isinstance(n, ast.Assignment) and n.receiver is None:
            assigned.add(n.name)
        for c in n.children():
            if c is not None:
                collect(c)
    tops = list(program.get_declarations().values())
    for d in tops:
        collect(d)

    def visit(n, inner, outer, infun, path):
        # inner / outer: dict name -> declaration (locals and parameters); fields and top-level variables are not locals
        if n is None:
            return
        if isinstance(n, ast.ClassDeclaration):
            for f in n.functions:
                visit(f, {}, {}, False, path + "/" + n.name)
            return
        if isinstance(n, (ast.FunctionDeclaration, ast.Lambda)):
            name = getattr(n, "name", None) or "lambda"
            ps = {q.name: q for q in n.params}
            if infun:
                o2 = dict(outer)
                o2.update(inner)
                counts["nested_frames"] = counts.get("nested_frames", 0) + 1
                visit(n.body, dict(ps), o2, True, path + "/" + name)
            else:
                visit(n.body, dict(ps), {}, True, path + "/" + name)
            return
        if isinstance(n, ast.Block):
            inn = dict(inner)
            for s in n.body:
                if isinstance(s, ast.FunctionDeclaration):
                    visit(s, inn, outer, infun, path)
                else:
                    visit(s, inn, outer, infun, path)
                    if isinstance(s, ast.VariableDeclaration):
                        inn[s.name] = s
            return
        if isinstance(n, ast.Variable):
            if n.name not in inner and n.name in outer:
                d = outer[n.name]
                counts["captured_refs"] = counts.get("captured_refs", 0) + 1
                if isinstance(d, ast.VariableDeclaration) and not d.is_final and n.name in assigned:
                    problems.append({"judge": "capture", "what": "java-lambda-reads-reassigned-local",
                                     "where": path, "name": n.name})
                elif isinstance(d, ast.VariableDeclaration) and not d.is_final:
                    problems.append({"judge": "capture", "what": "java-lambda-reads-nonfinal-local",
                                     "where": path, "name": n.name, "effectively_final": True})
            return
        if isinstance(n, ast.Assignment) and n.receiver is None:
            if n.name not in inner and n.name in outer:
                problems.append({"judge": "capture", "what": "java-lambda-assigns-captured-local", "where": path,
                                 "name": n.name})
        for c in n.children():
            visit(c, inner, outer, infun, path)
    for d in tops:
        if isinstance(d, ast.VariableDeclaration):
            continue
        visit(d, {}, {}, False, "")


# ------------------------------------------------------------------ one case
def run_case(case):
    """case: {lang, seed, switches, max_depth, host, chain, script: [[op, shape]…], knobs}"""
    import collections
    from src.ir import ast, types as tp
    import export_ast
    lang = case["lang"]
    gen = fresh_generator(lang, case["seed"], tuple(case.get("switches", (0, 0, 0, 0))), case.get("max_depth", 3),
                          case.get("knobs"))
    st = _St()
    st.case, st.problems, st.tally, st.depth_flags = case, [], collections.Counter(), []
    st.innermost_ns, st.innermost_flag = None, None
    out = {"case": case}
    try:
        build_classes(gen, st)
        install_dispatch(gen, st)
        host, chain = case["host"], case["chain"]
        if host == "method":
            tv = st.cls_tps[0]
            push_hook(gen, st, enter(gen, st, chain, tv), ("global", "Cls"))
            par = ast.ParameterDeclaration("par", tv)
            gen.gen_func_decl(etype=st.int_t, func_name="meth", params=[par], namespace=("global", "Cls"))
        elif host == "pfunc":
            tv = tp.TypeParameter("F_X")
            push_hook(gen, st, enter(gen, st, chain, tv), ("global",))
            par = ast.ParameterDeclaration("par", tv)
            gen.gen_func_decl(etype=st.int_t, func_name="host", params=[par], type_params=[tv])
        else:
            tv = None
            push_hook(gen, st, enter(gen, st, chain, tv), ("global",))
            par = ast.ParameterDeclaration("par", st.int_t)
            gen.gen_func_decl(etype=st.int_t, func_name="host", params=[par], type_params=[])
        if st.hooks:
            raise RuntimeError("frames not entered: %d hooks left" % len(st.hooks))
        program = ast.Program(gen.context, lang)
        counts = {}
        judge_tvscope(program, st.problems)
        if lang == "java":
            judge_capture(program, st.problems, counts)
        out["export"] = export_ast.export_program(program)
        out["counts"] = counts
        out["innermost"] = {"namespace": st.innermost_ns, "flag": st.innermost_flag, "flags": st.depth_flags}
    except pipeline.Cutoff:
        raise
    except RecursionError:
        out["exception"] = {"type": "RecursionError", "msg": ""}
    except Exception as e:   # an internal failure of the generator in a crafted context is data, not a verdict
        import traceback
        out["exception"] = {"type": type(e).__name__, "msg": str(e)[:200], "tb": traceback.format_exc()[-1200:]}
    out["problems"] = st.problems
    out["tally"] = dict(st.tally)
    return out
