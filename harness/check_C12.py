"""C12 — translations are faithful to the program's declarations and annotations.

proof side : lean/Heph/Props/C12.lean — for the MODELLED languages (registry harness/trans_models.py; the
             translator models are those of C11) theorems for all programs: `doc_tags`, `doc_inventory`,
             `doc_pieces_partial` (+ counterexample), `annot_iff_*`, `literals_ops_present`, `balanced_partial`.
             Groovy (lean/Heph/Props/C12Groovy.lean, imported by C12.lean; text model of C11, no tagged document):
             `Groovy.var_annot_local/global`, `Groovy.ret_annot_method/closure`, `Groovy.call_targs_never_printed`,
             `Groovy.new_targs_iff`, counterexamples `Groovy.var_annot_iff_counterexample`, `Groovy.ret_annot_iff_…`.
             `doc_pieces_partial` (+ counterexample), `annot_iff_*`, `annot_var/ret/targs_text` (the printed annotation
             is the NAME of the carried type), `literals_ops_present`, `balanced_partial`.
tie to code: real pipeline runs (stages gen, erase, overwrite), every program translated by the REAL translators
             of all four languages, package "src.pkg": by a FRESH translator object per text AND (harness/c12_plugin.py,
             inside the worker) by ONE object per language kept across gen -> erase -> overwrite, as
             hephaestus.gen_program uses it (TypeErasure / TypeOverwriting mutate the program and shared type
             objects in place); a reused object's text that differs from the fresh one's is judged by S1-S3 too.
             Extra TypeOverwriting rounds (c12_plugin: pickle copy of the gen- / erase-stage program, translate,
             mutate, translate again with the same objects; the site is TypeOverwriting's own random choice,
             nothing is steered) are judged in the worker by S1 + S3; a stream of small programs (max_depth 3) makes
             the number of overwritten sites useful within the budget.  Evidence: `overwrite_sites` (which
             declaration was overwritten: var_type / ret_type / new_type_argument / call_type_argument, per
             source), `overwrite_sites_compared` (per language), `type_names_compared`.  Per (program, stage):
               specification side, from the export of the IR alone (harness/c12_scan.py, Python):
                   INV  = inventory(export)       declarations / annotations the program carries, print order
                   LIT  = literals(export)        literals and operators, print order
               the code's answers judged against it directly, for ALL FOUR languages:
               (S1) scan(lang, real text) == expected(lang, INV, export): a token-level recount of the declarations in
                    the real text with the NAMES of the printed types (per language the tags in c12_scan.SCANNED).
                    The expected type text is `c12_scan.type_text`, a renderer written from the languages' naming
                    rules and computed from the export alone (boxing, `? extends`/`out`/`? <:`, arrays; exact on the
                    unchanged tree).  Kotlin/Scala: in order, with modifiers, "annotation printed iff the program
                    carries it" and its text = the carried type (variables, return types, parameters, fields,
                    bounds + variance, super clauses, explicit type arguments of calls and of `new`).  Java/Groovy:
                    multiset by (tag, name): classes, type parameters + bounds, super clauses, fields, methods with
                    return type, parameters (methods, lambdas, closures), variables incl. nested functions
                    (`FunctionN<…> f = (a) -> …` / `def|Closure<T> f = { … }`), `new` with type arguments or `<>`;
                    IF the program carries a declared type the printed type IS it; where it carries none, Java (and
                    Groovy for globals / methods) prints a type anyway (recorded findings): any type accepted, counted
               (S2) the string and char literals of the real text are exactly those of LIT (Kotlin/Scala: in order)
               (S3) () [] {} are balanced in the real text outside string / char literals
               Groovy only (harness/c12_groovy.py): (G1) the names printed as `def NAME = ` are exactly the local
                    variables without a declared type plus the closure-functions without a non-void return type;
                    (G2) top-level unannotated variables printed with a type, (G3) explicit call type arguments not
                    printed: known findings, re-observed
               and for every language with a Lean model (correspondence; a model without a tagged document, i.e.
               without `doc_op` in the registry — Groovy — has leg K1 only: model text == real text):
               (K1) flatten(model doc) == real text                      [`trans.kotlin.doc`]
               (K2) Lean `inventory p` == INV (tags and names)           [`trans.kotlin.inventory`]
               (K3) declaration tags of the model doc == INV             [theorem doc_inventory, observed]
               (K4) Lean `semProgram p` == non-layout pieces of the doc, `condOK p` holds   [doc_pieces_partial]
               (K5) literal / operator pieces of the doc == LIT          [literals_ops_present, observed]
             Modelled: Kotlin (Props/C12.lean) and Scala (Props/C12Scala.lean, namespace Heph.Props.C12.Scala; ops
             `trans.scala.doc|inventory|sem`; K5 reads `is` / `!is` as Scala's `isInstanceOf`).
             witnesses: the counterexample of `doc_pieces` / `balanced` (a lambda as the condition of a
             conditional) is replayed on the real KotlinTranslator and ScalaTranslator (Scala also: `new` as the
             condition, whose `ne` is cut off).
failing input: (S1)-(S3) are judged on the real code alone, so a difference IS the failing input: language,
             generator replay (lang, seed, switches, depth), stage, first differing declaration.  If only
             (K1)-(K5) break (model vs code), the program is re-examined with S1-S3 for every language and
             stage; nothing found -> `no-failing-input-found`.
For a language without a Lean model, S1-S3 are the only check (evidence: `modelled_languages`, `scanned_tags`)."""
import time

import common
import pipeline
import trans_models
import c12_groovy
import c12_scan as cs
from trans_models import LANGS, MODELS
from check_C11 import stream_results

LEVEL = "proof"
STAGES = ["gen", "erase", "overwrite"]
DECL_TAGS = ["class", "tparam", "field", "func", "param", "var", "super", "varannot", "retannot", "targs", "new"]


PLUGIN = "c12_plugin"
ROUNDS_QUICK = {"gen": 2, "erase": 2, "more": 3, "budget_s": 10}
ROUNDS_SMALL_QUICK = {"gen": 3, "erase": 3, "more": 4, "budget_s": 12}
ROUNDS_THOROUGH = {"gen": 3, "erase": 4, "more": 6, "budget_s": 40}
SITE_KINDS = ("var_type", "ret_type", "new_type_argument", "call_type_argument")
# a site kind is visible in a language iff its translator prints it at all (Java / Groovy never print the explicit
# type arguments of a call: recorded findings)
PRINTED = {L: [k for k in SITE_KINDS if not (k == "call_type_argument" and L in ("java", "groovy"))]
           for L in ("java", "kotlin", "groovy", "scala")}


def make_specs(rng, n, cap, depths, rounds=None):
    specs = []
    for i in range(n):
        lang = LANGS[i % 4]
        switches = tuple(int(rng.random() < 0.25) for _ in range(4))
        specs.append({"lang": lang, "seed": rng.randrange(1, 1 << 30), "switches": switches,
                      "max_depth": rng.choice(depths), "stages": list(STAGES), "export": True,
                      "translate": list(LANGS), "cap": cap, "plugins": [PLUGIN], "c12_rounds": dict(rounds or {})})
    return specs


def replay_of(spec, stage=None, **kw):
    r = {"lang": spec["lang"], "seed": spec["seed"], "switches": list(spec["switches"]), "max_depth": spec["max_depth"]}
    if stage is not None:
        r["stage"] = stage
    r.update(kw)
    return r


def inv_pairs(inv):
    """[tag, name|bool|None] as the Lean side reports it"""
    out = []
    for tag, name, a in inv:
        out.append([tag, a["explicit"] if tag == "new" else name])
    return out


# ------------------------------------------------------------------ the code judged against the IR directly
def judge_text(run, spec, stage, L, text, inv, lit, lit_nodef, found, e=None, inv_nodef=None, mode="fresh"):
    """S1-S3 on one real text; returns True if something is wrong.  `mode`: "fresh" = a translator object created
    for this text, "reused" = the one object that translated the earlier stages of this run (c12_plugin)"""
    bad = False
    rp = lambda: dict(replay_of(spec, stage), translator_object=mode, c12_rounds=spec.get("c12_rounds"))  # noqa: E731
    toks = cs.tokenize(text)
    run.cov["texts_scanned"] += 1
    # S3
    b = cs.balance(toks)
    if b is not None:
        bad = True
        sig = "unbalanced:%s:%s" % (L, b["error"].split()[0])
        if sig not in found:
            found.add(sig)
            run.violation(dict(rp(), kind="failing-input", translator=L, leg="S3 balance", detail=b,
                               around=text[max(0, b["pos"] - 100):b["pos"] + 60]), signature=sig)
    # S1
    exp = cs.expected(L, inv_nodef if (L == "java" and inv_nodef is not None) else inv, e)
    got = cs.scan(L, text)
    d, synth = cs.compare(L, exp, got)
    count_type_names(run, L, exp)
    if synth:
        run.cov["synthetic_declarations"][L] = run.cov["synthetic_declarations"].get(L, 0) + synth
    run.cov["declarations_compared"] += len(exp)
    if d is not None:
        bad = True
        sig = "declarations-differ:%s:%s" % (L, cs.diff_tag(d))
        if sig not in found:
            found.add(sig)
            run.violation(dict(rp(), kind="failing-input", translator=L, leg="S1 declarations",
                               first_difference=d,
                               note="the declarations recounted in the real text differ from those of the program "
                                    "(expected: from the IR, types by name; scanned: from the text)"), signature=sig)
    # Java: the two deviations from "printed iff the program carries it" that DESIGN lists for the Java translator
    if L == "java" and mode == "fresh":
        java_annotation_legs(run, spec, stage, text, inv, found)
    if L == "groovy" and mode == "fresh":
        groovy_annotation_legs(run, spec, stage, text, inv, found)
    # S2
    strs, chrs = cs.text_literals(toks)
    if L == "java":
        # Java has no default arguments: JavaTranslator drops the default values of parameters
        lit2 = lit_nodef
        if lit2 != lit:
            run.tally("java_drops_parameter_defaults(program language)", spec["lang"])
    else:
        lit2 = lit
    es = [x for x in lit2 if x[0] == "string"]
    ec = [x for x in lit2 if x[0] == "char"]
    ordered = L in ("kotlin", "scala")
    for kind, e, g in (("string", es, strs), ("char", ec, chrs)):
        run.cov["literals_compared"] += len(e)
        ok = (e == g) if ordered else (sorted(e) == sorted(g))
        if not ok:
            bad = True
            sig = "literals-differ:%s:%s" % (L, kind)
            if sig not in found:
                found.add(sig)
                k = next((i for i, (x, y) in enumerate(zip(e, g)) if x != y), min(len(e), len(g)))
                run.violation(dict(rp(), kind="failing-input", translator=L, leg="S2 literals",
                                   first_difference={"index": k, "expected": e[k:k + 2], "in_text": g[k:k + 2],
                                                     "n_expected": len(e), "n_in_text": len(g)}), signature=sig)
    return bad


def java_annotation_legs(run, spec, stage, text, inv, found):
    """JavaTranslator.visit_var_decl prints `inferred_type` whether or not the variable carries a declared type (an
    erased local type is still printed), and visit_func_call never prints explicit method type arguments: both
    contradict "printed if and only if the program carries it"; recorded as known findings, re-observed here"""
    import re
    bare = [inv[i][1] for i in range(len(inv)) if inv[i][0] == "var"
            and not (i + 1 < len(inv) and inv[i + 1][0] == "varannot")]
    if bare:
        run.cov["java_unannotated_variables"] = run.cov.get("java_unannotated_variables", 0) + len(bare)
        untyped = sum(1 for nm in bare if re.search(r"\bvar\s+(Main\.)?%s\b" % re.escape(nm), text))
        typed = sum(1 for nm in bare if re.search(r"[\w>\]]\s+(Main\.)?%s = " % re.escape(nm), text))
        run.cov["java_unannotated_variables_printed_with_type"] = \
            run.cov.get("java_unannotated_variables_printed_with_type", 0) + typed
        if typed and not untyped:
            run.violation(dict(replay_of(spec, stage), kind="failing-input", translator="java",
                               leg="annotation iff (variables)", variables=bare[:5],
                               note="variables without a declared type (var_type is None) are printed with a type"),
                          signature="java:variable-without-declared-type-printed-with-type")
    targs = [nm for tag, nm, _ in inv if tag == "targs"]
    if targs:
        run.cov["java_explicit_call_type_arguments"] = run.cov.get("java_explicit_call_type_arguments", 0) + len(targs)
        printed = sum(1 for nm in targs if re.search(r"<[^;(){}]*>\s*%s\(" % re.escape(nm), text))
        run.cov["java_explicit_call_type_arguments_printed"] = \
            run.cov.get("java_explicit_call_type_arguments_printed", 0) + printed
        if not printed:
            run.violation(dict(replay_of(spec, stage), kind="failing-input", translator="java",
                               leg="annotation iff (call type arguments)", calls=targs[:5],
                               note="calls carrying explicit type arguments (can_infer_type_args False) are printed "
                                    "without them"),
                          signature="java:explicit-call-type-arguments-not-printed")


def groovy_annotation_legs(run, spec, stage, text, inv, found):
    """GroovyTranslator.visit_func_call never prints explicit method type arguments either"""
    import re
    targs = [nm for tag, nm, _ in inv if tag == "targs"]
    if targs:
        run.cov["groovy_explicit_call_type_arguments"] = run.cov.get("groovy_explicit_call_type_arguments", 0) + len(targs)
        printed = sum(1 for nm in targs if re.search(r"<[^;(){}]*>\s*%s\(" % re.escape(nm), text))
        run.cov["groovy_explicit_call_type_arguments_printed"] = \
            run.cov.get("groovy_explicit_call_type_arguments_printed", 0) + printed
        if not printed:
            run.violation(dict(replay_of(spec, stage), kind="failing-input", translator="groovy",
                               leg="annotation iff (call type arguments)", calls=targs[:5],
                               note="calls carrying explicit type arguments (can_infer_type_args False) are printed "
                                    "without them"),
                          signature="groovy:explicit-call-type-arguments-not-printed")


def count_type_names(run, L, exp):
    c = run.cov["type_names_compared"].setdefault(L, {"by_name": 0, "any_type_accepted": 0})
    for ev in exp:
        for k in cs.WILD_KEYS:
            if ev[2] and k in ev[2]:
                c["by_name" if ev[2][k] is not None else "any_type_accepted"] += 1


def count_site(run, where, sites, langs_judged):
    """one overwritten program: which declaration TypeOverwriting changed, and in which languages' texts that
    declaration was compared by name (S1 ran on the text and the language prints that kind of site)"""
    d = run.cov["overwrite_sites"].setdefault(where, {})
    if not sites:
        d["none_or_not_located"] = d.get("none_or_not_located", 0) + 1
    for s_ in sites or []:
        d[s_[0]] = d.get(s_[0], 0) + 1
        for L in langs_judged:
            if s_[0] in PRINTED[L]:
                c = run.cov["overwrite_sites_compared"].setdefault(L, {})
                c[s_[0]] = c.get(s_[0], 0) + 1


def judge_rounds(run, spec, r, found):
    """the extra TypeOverwriting rounds judged inside the worker (c12_plugin): counts and violations"""
    bad = False
    pl = (r.get("plugins") or {}).get(PLUGIN) or {}
    if "error" in pl:
        raise common.HarnessError("c12_plugin: " + str(pl["error"]))
    for rec in pl.get("extra", []):
        base = rec["round"][0]
        if "skipped" in rec:
            run.tally("extra_rounds", base + ":skipped(" + rec["skipped"] + ")")
            continue
        if "error" in rec:
            run.tally("extra_rounds", base + ":error:" + rec["error"].split(":")[0])
            continue
        run.tally("extra_rounds", base + (":transformed" if rec.get("is_transformed") else ":not-transformed"))
        run.cov["extra_round_seconds"] = round(run.cov.get("extra_round_seconds", 0) + rec.get("seconds", 0), 1)
        if not rec.get("is_transformed"):
            continue
        langs = rec.get("langs") or {}
        count_site(run, "extra_rounds_on_" + base, rec.get("site"), list(langs))
        run.count(dict(replay_of(spec, "overwrite"), round=rec["round"]), nontrivial=bool(rec.get("site")))
        for L, lr in langs.items():
            run.cov["texts_scanned"] += 1
            run.cov["declarations_compared"] += lr.get("n", 0)
            run.tally("texts_reused_translator", L)
            for d in lr["diffs"]:
                bad = True
                sig = d["signature"]
                if sig in found:
                    continue
                found.add(sig)
                run.violation(dict(replay_of(spec, "overwrite"), kind="failing-input", translator=L, leg=d["leg"],
                                   translator_object=d["mode"], round=rec["round"], c12_rounds=spec.get("c12_rounds"),
                                   overwritten_site=rec.get("site"), error_injected=rec.get("error_injected"),
                                   reused_text_differs_from_fresh=lr.get("reused_differs"),
                                   first_difference=d["first_difference"],
                                   note="extra TypeOverwriting round on a copy of the %s-stage program, translated by "
                                        "the translator object that had translated the copy before the mutation "
                                        "(as hephaestus.gen_program does): the declarations recounted in the real "
                                        "text differ from those of the mutated program" % base), signature=sig)
    return bad


# ------------------------------------------------------------------ model legs
def model_requests(L, e):
    m = MODELS[L]
    if "doc_op" not in m:       # a model without a tagged document: text only (leg K1)
        return [{"op": m["op"], "program": e, "package": "src.pkg"}]
    rq = [{"op": m["doc_op"], "program": e, "package": "src.pkg"},
          {"op": m["inv_op"], "program": e}]
    if "sem_op" in m:           # K4 only for a language whose model has the IR-side `semProgram`
        rq.append({"op": m["sem_op"], "program": e})
    return rq


def model_judge(run, L, ans, text, inv, lit):
    out = []
    for a in ans:
        if "error" in a:
            raise common.HarnessError("driver error (%s): %s" % (L, a["error"]))
    import c11_plugin
    if "doc_op" not in MODELS[L]:
        if ans[0]["r"] != text:
            out.append(("K1 model-text=text", c11_plugin.first_diff(text, ans[0]["r"])))
        return out
    doc, linv = ans[0]["r"], ans[1]["r"]
    sem = ans[2]["r"] if len(ans) > 2 else None
    flat = "".join(p[2] for p in doc)
    if flat != text:
        out.append(("K1 flatten(doc)=text", c11_plugin.first_diff(text, flat)))
    want = inv_pairs(inv)
    if linv != want:
        k = next((i for i, (x, y) in enumerate(zip(linv, want)) if x != y), min(len(linv), len(want)))
        out.append(("K2 lean-inventory=python-inventory", {"index": k, "lean": linv[k:k + 2], "python": want[k:k + 2]}))
    dtags = [[p[0], p[1]] for p in doc if p[0] in DECL_TAGS]
    if dtags != want:
        k = next((i for i, (x, y) in enumerate(zip(dtags, want)) if x != y), min(len(dtags), len(want)))
        out.append(("K3 doc-decl-tags=inventory", {"index": k, "doc": dtags[k:k + 2], "python": want[k:k + 2]}))
    nonlay = [p for p in doc if p[0] != "other"]
    if sem is not None:
        run.tally("condOK", str(sem["condok"]))
        if sem["condok"] and sem["pieces"] != nonlay:
            k = next((i for i, (x, y) in enumerate(zip(sem["pieces"], nonlay)) if x != y), min(len(nonlay), len(sem["pieces"])))
            out.append(("K4 sem=non-layout-pieces", {"index": k, "sem": sem["pieces"][k:k + 2], "doc": nonlay[k:k + 2]}))
        if not sem["condok"] and [p[:2] for p in sem["pieces"]] != [p[:2] for p in nonlay]:
            out.append(("K4 sem-tags=non-layout-tags", {}))
    dl = [[("op" if p[0] == "op" else "lit"), p[2]] for p in doc if p[0] in ("lit", "op")]
    is_text = MODELS[L].get("is_op_text")    # Scala prints both `is` and `!is` as `.isInstanceOf[…]`
    wl = [[("op" if k == "op" else "lit"), (is_text if is_text and k == "op" and t in ("is", "!is") else t)]
          for k, t in lit]
    if dl != wl:
        k = next((i for i, (x, y) in enumerate(zip(dl, wl)) if x != y), min(len(dl), len(wl)))
        out.append(("K5 doc-literals-ops=program's", {"index": k, "doc": dl[k:k + 3], "program": wl[k:k + 3]}))
    for p in doc:
        run.cov["doc_tags_seen"][p[0]] = run.cov["doc_tags_seen"].get(p[0], 0) + 1
    return out


# ------------------------------------------------------------------ witness of the counterexample theorems
def witness_badcond(run):
    """`if ({x: Int -> true}) 1 else 2`: the real KotlinTranslator cuts `{x` off (theorems
    doc_pieces_counterexample / balanced_counterexample); model and code must agree on the text"""
    pipeline.setup()
    from src.translators.kotlin import KotlinTranslator
    from src.ir import ast, kotlin_types as kt
    import export_ast
    lam = ast.Lambda("l", [ast.ParameterDeclaration("x", kt.Integer)], None, ast.BooleanConstant("true"), None)
    cond = ast.Conditional(lam, ast.IntegerConstant(1, None), ast.IntegerConstant(2, None), None)
    tr = KotlinTranslator(None, {})
    tr.visit(cond)
    real = tr._children_res[-1]
    e = export_ast.Exporter()
    prog = {"lang": "kotlin", "decls": [e.node(cond)], "context": []}
    prog["tt"] = e.tt.entries
    a = common.run_driver([{"op": "trans.kotlin.doc", "program": prog, "package": None},
                           {"op": "trans.kotlin.sem", "program": prog}])
    for x in a:
        if "error" in x:
            raise common.HarnessError("driver: " + x["error"])
    model = "".join(p[2] for p in a[0]["r"])
    unb = cs.balance(cs.tokenize(real))
    run.cov["witness_doc_pieces_counterexample"] = {"real": real, "model": model, "condok": a[1]["r"]["condok"],
                                                    "real_text_balanced": unb is None}
    run.count({"witness": "doc_pieces_counterexample"})
    expect = "(if (: Int -> true})\n  1\nelse\n  2)"
    if real != model or real != expect or a[1]["r"]["condok"] or unb is None:
        run.violation({"kind": "broken-correspondence", "witness": "doc_pieces_counterexample", "real": real,
                       "model": model, "expected": expect,
                       "note": "the witness of the counterexample theorems behaves differently on the real code"},
                      signature="witness:doc_pieces_counterexample", no_input=True)


def witness_badcond_scala(run):
    """Scala: `if ((x: Int) => true) 1 else 2` (theorems Scala.doc_pieces_counterexample /
    Scala.balanced_counterexample: the real ScalaTranslator cuts `(x` off) and `if (new B()) 1 else 2` (`new` is
    printed before the indentation: `ne` is cut off); model, code and the texts of the Lean examples must agree"""
    pipeline.setup()
    from src.translators.scala import ScalaTranslator
    from src.ir import ast, scala_types as sc, types as tp
    import export_ast
    lam = ast.Lambda("l", [ast.ParameterDeclaration("x", sc.Integer)], None, ast.BooleanConstant("true"), None)
    conds = [("lambda", ast.Conditional(lam, ast.IntegerConstant(1, None), ast.IntegerConstant(2, None), None),
              "(if (: Int) => true) then\n  1\nelse\n  2)", False),
             ("new", ast.Conditional(ast.New(tp.SimpleClassifier("B", []), []), ast.IntegerConstant(1, None),
                                     ast.IntegerConstant(2, None), None),
              "(if (w   B()) then\n  1\nelse\n  2)", True)]
    res = {}
    for name, cond, expect, balanced in conds:
        tr = ScalaTranslator(None, {})
        tr.visit(cond)
        real = tr._children_res[-1]
        e = export_ast.Exporter()
        prog = {"lang": "scala", "decls": [e.node(cond)], "context": []}
        prog["tt"] = e.tt.entries
        a = common.run_driver([{"op": "trans.scala.doc", "program": prog, "package": None},
                               {"op": "trans.scala.sem", "program": prog}])
        for x in a:
            if "error" in x:
                raise common.HarnessError("driver: " + x["error"])
        model = "".join(p[2] for p in a[0]["r"])
        unb = cs.balance(cs.tokenize(real))
        res[name] = {"real": real, "model": model, "condok": a[1]["r"]["condok"], "real_text_balanced": unb is None}
        run.count({"witness": "Scala.doc_pieces_counterexample", "condition": name})
        if real != model or real != expect or a[1]["r"]["condok"] or (unb is None) != balanced:
            run.violation({"kind": "broken-correspondence", "witness": "Scala.doc_pieces_counterexample",
                           "condition": name, "real": real, "model": model, "expected": expect,
                           "note": "the witness of the counterexample theorems behaves differently on the real code"},
                          signature="witness:Scala.doc_pieces_counterexample", no_input=True)
    run.cov["witness_scala_doc_pieces_counterexample"] = res


# ------------------------------------------------------------------ streams
def run_stream(run, specs, found, label, budget_s=10 ** 6):
    import os
    workers = min(12, max(2, (os.cpu_count() or 4) - 4))
    model_diffs, direct_bad, done = [], [], 0
    for spec, r in stream_results(specs, time.time() + budget_s, workers):
        done += 1
        t_judge = time.time()
        if "cutoff" in r:
            run.tally("pipeline_cutoff", r["cutoff"])
        if "exception" in r:
            run.tally("pipeline_exception", r["exception"]["stage"] + ":" + r["exception"]["type"])
        batch, owners = [], []
        for stage in STAGES:
            st = r["stages"].get(stage)
            if st is None or "export" not in st:
                continue
            e = st["export"]
            inv = cs.inventory(e)
            lit = cs.literals(e)
            lit_nodef = cs.literals(e, skip_defaults=True)
            inv_nodef = cs.inventory(e, skip_defaults=True)
            reused = st.get("c12_reused") or {}
            judged = []
            run.count(replay_of(spec, stage), nontrivial=len(inv) > 0)
            run.tally("stages", stage)
            run.tally("program_language", spec["lang"])
            if st.get("is_transformed") is not None:
                run.tally("stage_transformed", "%s:%s" % (stage, st["is_transformed"]))
            for tag, _, _ in inv:
                run.cov["inventory_tags"][tag] = run.cov["inventory_tags"].get(tag, 0) + 1
            for L in LANGS:
                text = (st.get("texts") or {}).get(L)
                if text is None:
                    continue
                run.tally("texts", L)
                if judge_text(run, spec, stage, L, text, inv, lit, lit_nodef, found, e=e, inv_nodef=inv_nodef):
                    direct_bad.append((spec, stage, L))
                if L == "groovy" and c12_groovy.annotation_legs(run, spec, stage, text, e, inv, found, replay_of):
                    direct_bad.append((spec, stage, L))
                judged.append(L)
                # the same translator object across gen -> erase -> overwrite (as hephaestus.gen_program uses it)
                if L in reused:
                    run.tally("texts_reused_translator", L)
                    rt = reused[L]
                    if isinstance(rt, dict):
                        run.tally("reused_translator_exception", L + ":" + rt["error"].split(":")[0])
                    elif rt is not None:
                        run.tally("reused_translator_text_differs_from_fresh", "%s:%s" % (L, stage))
                        if judge_text(run, spec, stage, L, rt, inv, lit, lit_nodef, found, e=e, inv_nodef=inv_nodef,
                                      mode="reused"):
                            direct_bad.append((spec, stage, L))
                if L in MODELS:
                    rq = model_requests(L, e)
                    owners.append((L, stage, text, inv, lit, len(batch), len(rq)))
                    batch += rq
            if stage == "overwrite" and st.get("is_transformed"):
                count_site(run, "pipeline_overwrite_stage", st.get("c12_site"), judged)
        if judge_rounds(run, spec, r, found):
            direct_bad.append((spec, "overwrite", "extra-round"))
        if batch:
            answers = common.run_driver(batch)
            for (L, stage, text, inv, lit, off, n) in owners:
                run.cov["traces_validated_against_impl"] += 1
                run.cov["model_requests"] += n
                for leg, detail in model_judge(run, L, answers[off:off + n], text, inv, lit):
                    model_diffs.append((spec, stage, L, leg, detail))
                run.tally("model_programs_compared", L)
        run.cov["main_process_judge_seconds"] = round(run.cov.get("main_process_judge_seconds", 0) + time.time() - t_judge, 1)
        run.cov["worker_seconds"] = round(run.cov.get("worker_seconds", 0) + sum((r.get("times") or {}).values()), 1)
    run.cov["programs_done_within_budget"] = run.cov.get("programs_done_within_budget", 0) + done
    run.log("%s: %d of %d programs within the budget, %d model differences, %d texts with a direct failure"
            % (label, done, len(specs), len(model_diffs), len(direct_bad)))
    return model_diffs, direct_bad


def report_model_diffs(run, model_diffs, direct_found):
    seen = set()
    for spec, stage, L, leg, detail in model_diffs:
        sig = "model-differs:%s:%s" % (L, leg.split()[0])
        if sig in seen:
            continue
        seen.add(sig)
        run.log("correspondence breaks: %s %s at %s" % (L, leg, common.canon(detail)[:300]))
        if not direct_found:
            # S1-S3 already ran on this very text and found nothing
            run.violation(dict(replay_of(spec, stage), kind="broken-correspondence", translator=L, leg=leg,
                               detail=detail,
                               note="the Lean model and the real translator (or the Lean and the Python inventory) "
                                    "differ; the scanners S1-S3 find the real text of every language and stage of "
                                    "this program faithful"),
                          signature=sig, no_input=True)


def init_cov(run):
    for k in ("texts_scanned", "declarations_compared", "literals_compared", "model_requests"):
        run.cov[k] = 0
    for k in ("synthetic_declarations", "inventory_tags", "doc_tags_seen", "type_names_compared", "overwrite_sites",
              "overwrite_sites_compared"):
        run.cov[k] = {}
    run.cov["overwrite_sites_note"] = (
        "overwrite_sites: the declaration TypeOverwriting changed (located by comparing the exports before / after), "
        "per source: the pipeline's own overwrite stage, and the extra rounds of c12_plugin on copies of the gen- / "
        "erase-stage program (each round is TypeOverwriting's own random choice; nothing is steered).  "
        "overwrite_sites_compared[L][kind]: sites of that kind whose text in language L was recounted by S1 with the "
        "NAME of the overwritten type (kinds a language never prints are not counted for it).  type_names_compared: "
        "type texts compared by name / places where any type text is accepted (Java, Groovy print a type the program "
        "does not carry: recorded findings)")
    run.cov["modelled_languages"] = trans_models.modelled()
    run.cov["unmodelled_languages"] = [L for L in LANGS if L not in MODELS]
    run.cov["scanned_tags"] = cs.SCANNED
    run.cov["unmodelled_note"] = ("for a language without a Lean model the scanner legs S1-S3 (tags listed in "
                                  "scanned_tags) are the only check; synthetic declarations the target language needs "
                                  "(Java/Groovy `Main`, `FunctionN`, constructors; Kotlin `var y =`, Scala `val _y =` "
                                  "for a lambda statement) are counted in synthetic_declarations, not compared")


def check(run):
    pipeline.setup()
    proofs_ok = run.build_and_audit()
    quick = run.tier == "quick"
    init_cov(run)
    found = set()
    witness_badcond(run)
    if "scala" in MODELS:
        witness_badcond_scala(run)
    nprog, cap, budget = (40, 100, 110) if quick else (1000, 150, 1500)
    depths = [3, 4, 4, 5, 5, 6] if quick else [3, 4, 5, 5, 6, 6]   # depth 7 takes minutes per program on a loaded machine
    rounds = ROUNDS_QUICK if quick else ROUNDS_THOROUGH
    specs = make_specs(run.rng, nprog, cap, depths, rounds)
    # small programs first: cheap to generate, so that many overwritten sites are reached within the budget
    nsmall, small_rounds = (40, ROUNDS_SMALL_QUICK) if quick else (600, ROUNDS_THOROUGH)
    specs = make_specs(run.rng, nsmall, cap, [3], small_rounds) + specs
    run.cov["extra_overwrite_rounds"] = {"programs": dict(rounds), "small_programs(max_depth 3)": dict(small_rounds),
                                         "n_small_programs": nsmall}
    model_diffs, direct_bad = run_stream(run, specs, found, "pipeline stream", budget)
    run.cov["programs"] = nprog + nsmall
    run.cov["stream_budget_s"] = budget
    run.cov["exhaustive"] = False
    run.cov["rule"] = (
        "case = one (generator replay (lang, seed, switches, max_depth), stage in gen/erase/overwrite); for each case "
        "the four real translators print the program, each with a fresh translator object and with the one object "
        "kept across the stages; every text is judged against the inventory / literal list computed from the IR (S1 "
        "declarations with the names of the types, S2 literals, S3 balance) and, for a modelled language, compared "
        "with the Lean doc, inventory and sem (K1-K5); plus one case per extra TypeOverwriting round (copy of the "
        "gen- / erase-stage program, same translator object before and after, S1 + S3); non-trivial = the program "
        "has at least one declaration (a round: the overwritten site was located); distinct by replay tuple")
    if model_diffs:
        report_model_diffs(run, model_diffs, bool(direct_bad))
    if not proofs_ok and not run.violations:
        run.violation({"kind": "broken-proof", "obligations": run.broken,
                       "note": "the scanners found no unfaithful text in this run"},
                      signature="proof", no_input=True)


def replay(run, rp):
    pipeline.setup()
    init_cov(run)
    if rp.get("witness") == "Scala.doc_pieces_counterexample":
        witness_badcond_scala(run)
        run.cov["rule"] = "replay of the Scala counterexample witnesses"
        return
    if rp.get("witness") == "doc_pieces_counterexample":
        witness_badcond(run)
        run.cov["rule"] = "replay of the counterexample witness"
        return
    spec = {"lang": rp["lang"], "seed": rp["seed"], "switches": tuple(rp["switches"]), "max_depth": rp["max_depth"],
            "stages": list(STAGES), "export": True, "translate": list(LANGS), "cap": 300, "plugins": [PLUGIN],
            "c12_rounds": dict(rp.get("c12_rounds") or {})}
    if spec["c12_rounds"]:
        spec["c12_rounds"]["budget_s"] = 250
    found = set()
    model_diffs, direct_bad = run_stream(run, [spec], found, "replay")
    run.cov["rule"] = "replay of one generator run (all stages, all four translators)"
    if model_diffs:
        report_model_diffs(run, model_diffs, bool(direct_bad))
