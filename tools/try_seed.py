#!/usr/bin/env python3
"""Validate a seeded change and run our check against it, without touching /repo.

  tools/try_seed.py <property id> <dir with patch.diff + demo.py> [--suffix 2] [--tier quick] [--checks C01,C05]

Steps (all in a scratch worktree of /repo's HEAD, removed afterwards): test suite on the clean
tree, demo on the clean tree (must PASS), apply patch, test suite (must pass), demo (must FAIL),
then `./check <id>` with HEPH_REPO pointing at the patched worktree (expected: exit 1 with a
VIOLATION line).  Prints a JSON summary."""
import argparse
import json
import os
import shutil
import subprocess
import sys
import time

VERIF = os.path.dirname(os.path.dirname(os.path.abspath(__file__)))


def sh(cmd, cwd=None, env=None, timeout=3600):
    p = subprocess.run(cmd, shell=True, cwd=cwd, env=env, stdout=subprocess.PIPE, stderr=subprocess.STDOUT,
                       text=True, timeout=timeout)
    return p.returncode, p.stdout


def main():
    ap = argparse.ArgumentParser()
    ap.add_argument("prop")
    ap.add_argument("dir")
    ap.add_argument("--suffix", default="")
    ap.add_argument("--tier", default="quick")
    ap.add_argument("--checks", default=None)
    ap.add_argument("--keep", action="store_true")
    a = ap.parse_args()
    patch = os.path.join(a.dir, "patch%s.diff" % a.suffix)
    demo = os.path.join(a.dir, "demo%s.py" % a.suffix)
    wt = "/tmp/seedverify_%s%s_%d" % (a.prop, a.suffix, os.getpid())
    out = {"property": a.prop, "patch": patch, "demo": demo}
    sh("git -C /repo worktree add --detach %s HEAD" % wt)
    try:
        env = dict(os.environ, PYTHONPATH=wt, PYTHONHASHSEED="0")
        rc, o = sh("/venv/bin/python -m pytest -q -p no:cacheprovider tests 2>&1 | tail -1", cwd=wt, env=env)
        out["tests_clean"] = o.strip()
        rc, o = sh("/venv/bin/python %s" % demo, cwd=wt, env=env, timeout=600)
        out["demo_clean_rc"] = rc
        rc, o = sh("git apply %s" % patch, cwd=wt)
        out["patch_applies"] = rc == 0
        if rc != 0:
            out["apply_output"] = o[-500:]
            print(json.dumps(out, indent=1))
            return 2
        rc, o = sh("/venv/bin/python -m pytest -q -p no:cacheprovider tests 2>&1 | tail -1", cwd=wt, env=env)
        out["tests_patched"] = o.strip()
        rc, o = sh("/venv/bin/python %s" % demo, cwd=wt, env=env, timeout=600)
        out["demo_patched_rc"] = rc
        out["demo_patched_tail"] = o[-400:]
        checks = (a.checks.split(",") if a.checks else [a.prop])
        out["checks"] = {}
        for c in checks:
            t0 = time.time()
            env2 = dict(os.environ, HEPH_REPO=wt)
            rc, o = sh("./check %s --tier %s" % (c, a.tier), cwd=VERIF, env=env2, timeout=7200)
            lines = [l for l in o.splitlines() if l.startswith("VIOLATION") or l.startswith("KNOWN-FINDING")]
            out["checks"][c] = {"exit": rc, "wall_s": round(time.time() - t0, 1), "lines": lines[:6],
                                "tail": o.splitlines()[-4:]}
            # keep the replay of the first violation next to the seed
            for l in lines:
                if l.startswith("VIOLATION") and "replay=" in l:
                    rp = l.split("replay=")[1].split()[0]
                    if os.path.exists(rp):
                        shutil.copy(rp, os.path.join(a.dir, "caught_by_%s%s.json" % (c, a.suffix)))
                    break
        out["caught"] = any(v["exit"] == 1 for v in out["checks"].values())
    finally:
        if not a.keep:
            sh("git -C /repo worktree remove --force %s" % wt)
            # evidence files were rewritten by the run against the patched tree: restore the committed ones
            sh("git checkout -- evidence lean/Heph/Generated", cwd=VERIF)
    print(json.dumps(out, indent=1))
    return 0


if __name__ == "__main__":
    sys.exit(main())
