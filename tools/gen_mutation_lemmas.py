#!/usr/bin/env python3
"""generates the per-constructor cases of the mutual inductions over `Heph.Node` used in
lean/Heph/Proofs/MutationMap.lean (27 constructors x 3 lemmas; written once, output committed)"""
# (constructor, field names, slot kind, children [(kind, group, var)])
C = [
 ("block", "b f", None, [("L", 0, "b")]),
 ("superInst", "t a", None, [("OL", 0, "a")]),
 ("classDecl", "n c fin fs ss fn tp", None, [("L", 0, "fs"), ("L", 1, "ss"), ("L", 2, "fn")]),
 ("varDecl", "n e fin vt inf", "var", [("N", 0, "e")]),
 ("callArg", "e n", None, [("N", 0, "e")]),
 ("fieldDecl", "n t fin co ov", None, []),
 ("paramDecl", "n t va d", None, [("O", 0, "d")]),
 ("funcDecl", "n ps rt inf b fin ov tp ft", "func", [("L", 0, "ps"), ("O", 1, "b")]),
 ("lambda", "n ps rt b sg", None, [("L", 0, "ps"), ("N", 1, "b")]),
 ("funcRef", "f r sg", None, [("O", 0, "r")]),
 ("bottom", "t", None, []), ("intC", "l t", None, []), ("realC", "l t", None, []),
 ("boolC", "l", None, []), ("charC", "l", None, []), ("stringC", "l", None, []),
 ("arrayE", "t n es", None, [("L", 0, "es")]),
 ("variable", "n", None, []),
 ("isE", "e t nt", None, [("N", 0, "e")]),
 ("binop", "k l r o", None, [("N", 0, "l"), ("N", 1, "r")]),
 ("cond", "c t f ty", None, [("N", 0, "c"), ("N", 1, "t"), ("N", 2, "f")]),
 ("newE", "t a ci", "new", [("L", 0, "a")]),
 ("fieldAccess", "e f", None, [("N", 0, "e")]),
 ("call", "f a r ta ci rc", "call", [("L", 0, "a"), ("O", 1, "r")]),
 ("assign", "n e r", None, [("N", 0, "e"), ("O", 1, "r")]),
]


def comp():
    out = ["mutual",
           "theorem mapN_comp (G F : SlotFn) : ∀ (π : Path) (n : Node), mapN G π (mapN F π n) = mapN (G.comp F) π n"]
    for c, fs, slot, kids in C:
        ihs = []
        for k, g, v in kids:
            if k == "N":
                ihs.append("mapN_comp G F ((%d, 0) :: π) %s" % (g, v))
            elif k == "L":
                ihs.append("mapL_comp G F π %d 0 %s" % (g, v))
            elif k == "O":
                ihs.append("mapO_comp G F π %d %s" % (g, v))
            else:
                ihs.append("mapOL_comp G F π %s" % v)
        lem = ", ".join(["mapN"] + ihs + (["SlotFn.comp"] if slot else []))
        out.append("  | π, .%s %s => by simp only [%s]" % (c, fs, lem))
    out += [
     "theorem mapL_comp (G F : SlotFn) : ∀ (π : Path) (g i : Nat) (l : List Node), mapL G π g i (mapL F π g i l) = mapL (G.comp F) π g i l",
     "  | _, _, _, [] => by simp only [mapL]",
     "  | π, g, i, x :: xs => by simp only [mapL, mapN_comp G F ((g, i) :: π) x, mapL_comp G F π g (i + 1) xs]",
     "theorem mapO_comp (G F : SlotFn) : ∀ (π : Path) (g : Nat) (o : Option Node), mapO G π g (mapO F π g o) = mapO (G.comp F) π g o",
     "  | _, _, none => by simp only [mapO]",
     "  | π, g, some x => by simp only [mapO, mapN_comp G F ((g, 0) :: π) x]",
     "theorem mapOL_comp (G F : SlotFn) : ∀ (π : Path) (o : Option (List Node)), mapOL G π (mapOL F π o) = mapOL (G.comp F) π o",
     "  | _, none => by simp only [mapOL]",
     "  | π, some l => by simp only [mapOL, mapL_comp G F π 0 0 l]",
     "end"]
    return "\n".join(out)


def slots_map():
    out = ["mutual",
           "theorem slotsN_map (F : SlotFn) : ∀ (π : Path) (n : Node), slotsN π (mapN F π n) = (slotsN π n).map (appP F)"]
    for c, fs, slot, kids in C:
        ihs = []
        for k, g, v in kids:
            if k == "N":
                ihs.append("slotsN_map F ((%d, 0) :: π) %s" % (g, v))
            elif k == "L":
                ihs.append("slotsL_map F π %d 0 %s" % (g, v))
            elif k == "O":
                ihs.append("slotsO_map F π %d %s" % (g, v))
            else:
                ihs.append("slotsOL_map F π %s" % v)
        lem = ", ".join(["mapN", "slotsN"] + ihs + ["List.map_append", "List.map_cons", "List.map_nil"] + (["appP", "SlotFn.app"] if slot else []))
        out.append("  | π, .%s %s => by simp only [%s]" % (c, fs, lem))
    out += [
     "theorem slotsL_map (F : SlotFn) : ∀ (π : Path) (g i : Nat) (l : List Node), slotsL π g i (mapL F π g i l) = (slotsL π g i l).map (appP F)",
     "  | _, _, _, [] => by simp only [mapL, slotsL, List.map_nil]",
     "  | π, g, i, x :: xs => by simp only [mapL, slotsL, slotsN_map F ((g, i) :: π) x, slotsL_map F π g (i + 1) xs, List.map_append]",
     "theorem slotsO_map (F : SlotFn) : ∀ (π : Path) (g : Nat) (o : Option Node), slotsO π g (mapO F π g o) = (slotsO π g o).map (appP F)",
     "  | _, _, none => by simp only [mapO, slotsO, List.map_nil]",
     "  | π, g, some x => by simp only [mapO, slotsO, slotsN_map F ((g, 0) :: π) x]",
     "theorem slotsOL_map (F : SlotFn) : ∀ (π : Path) (o : Option (List Node)), slotsOL π (mapOL F π o) = (slotsOL π o).map (appP F)",
     "  | _, none => by simp only [mapOL, slotsOL, List.map_nil]",
     "  | π, some l => by simp only [mapOL, slotsOL, slotsL_map F π 0 0 l]",
     "end"]
    return "\n".join(out)


def congr():
    out = ["mutual",
           "theorem mapN_congr (F G : SlotFn) : ∀ (π : Path) (n : Node), (∀ ps ∈ slotsN π n, appP F ps = appP G ps) → mapN F π n = mapN G π n"]
    for c, fs, slot, kids in C:
        lines = ["  | π, .%s %s, h => by" % (c, fs)]
        lines.append("      simp only [slotsN, List.mem_append, List.mem_cons, List.not_mem_nil, or_false, false_or] at h")
        names = []
        for j, (k, g, v) in enumerate(kids):
            if k == "N":
                call = "mapN_congr F G ((%d, 0) :: π) %s" % (g, v)
            elif k == "L":
                call = "mapL_congr F G π %d 0 %s" % (g, v)
            elif k == "O":
                call = "mapO_congr F G π %d %s" % (g, v)
            else:
                call = "mapOL_congr F G π %s" % v
            lines.append("      have e%d := %s (fun ps hp => h ps (by simp only [hp, true_or, or_true]))" % (j, call))
            names.append("e%d" % j)
        if slot:
            sl = {"var": ".var vt inf", "func": ".func rt inf", "new": ".new t ci", "call": ".call ta ci"}[slot]
            lines.append("      have e := h (π, %s) (by simp only [true_or])" % sl)
            lines.append("      simp only [appP, SlotFn.app, Prod.mk.injEq, true_and, Slot.%s.injEq] at e" % slot)
            lines.append("      simp only [mapN, %s]" % ", ".join(names + ["e.1", "e.2"]))
        else:
            lines.append("      simp only [mapN%s]" % "".join(", " + n for n in names))
        out += lines
    out += [
     "theorem mapL_congr (F G : SlotFn) : ∀ (π : Path) (g i : Nat) (l : List Node), (∀ ps ∈ slotsL π g i l, appP F ps = appP G ps) → mapL F π g i l = mapL G π g i l",
     "  | _, _, _, [], _ => by simp only [mapL]",
     "  | π, g, i, x :: xs, h => by",
     "      simp only [slotsL, List.mem_append] at h",
     "      simp only [mapL, mapN_congr F G ((g, i) :: π) x (fun ps hp => h ps (Or.inl hp)), mapL_congr F G π g (i + 1) xs (fun ps hp => h ps (Or.inr hp))]",
     "theorem mapO_congr (F G : SlotFn) : ∀ (π : Path) (g : Nat) (o : Option Node), (∀ ps ∈ slotsO π g o, appP F ps = appP G ps) → mapO F π g o = mapO G π g o",
     "  | _, _, none, _ => by simp only [mapO]",
     "  | π, g, some x, h => by",
     "      simp only [slotsO] at h",
     "      simp only [mapO, mapN_congr F G ((g, 0) :: π) x h]",
     "theorem mapOL_congr (F G : SlotFn) : ∀ (π : Path) (o : Option (List Node)), (∀ ps ∈ slotsOL π o, appP F ps = appP G ps) → mapOL F π o = mapOL G π o",
     "  | _, none, _ => by simp only [mapOL]",
     "  | π, some l, h => by",
     "      simp only [slotsOL] at h",
     "      simp only [mapOL, mapL_congr F G π 0 0 l h]",
     "end"]
    return "\n".join(out)


if __name__ == "__main__":
    import sys
    which = sys.argv[1:] or ["comp", "slots_map", "congr"]
    print("\n\n".join({"comp": comp, "slots_map": slots_map, "congr": congr}[w]() for w in which))
