#!/usr/bin/env python3
"""Validate a seeded change with tools/try_seed.py and, when it is a valid one (tests pass with
and without it, the demonstration passes on the clean tree and fails with the change), keep it
as seeded/<name>/ (patch.diff, demo.py, property.txt, meta.json with what was run and whether a
check caught it, the replay of the first violation).

  tools/keep_seed.py <property id> <dir> <name> [--suffix 2] [--tier quick] [--checks C01,C05]
"""
import argparse
import json
import os
import shutil
import subprocess
import sys

VERIF = os.path.dirname(os.path.dirname(os.path.abspath(__file__)))


def main():
    ap = argparse.ArgumentParser()
    ap.add_argument("prop")
    ap.add_argument("dir")
    ap.add_argument("name")
    ap.add_argument("--suffix", default="")
    ap.add_argument("--tier", default="quick")
    ap.add_argument("--checks", default=None)
    a = ap.parse_args()
    cmd = [sys.executable, os.path.join(VERIF, "tools", "try_seed.py"), a.prop, a.dir, "--tier", a.tier]
    if a.suffix:
        cmd += ["--suffix", a.suffix]
    if a.checks:
        cmd += ["--checks", a.checks]
    p = subprocess.run(cmd, stdout=subprocess.PIPE, stderr=subprocess.STDOUT, text=True)
    txt = p.stdout
    try:
        res = json.loads(txt[txt.index("{"):])
    except Exception:
        print(txt)
        return 2
    valid = (res.get("patch_applies") and " passed" in res.get("tests_clean", "") and "failed" not in res.get("tests_clean", "")
             and " passed" in res.get("tests_patched", "") and "failed" not in res.get("tests_patched", "")
             and res.get("demo_clean_rc") == 0 and res.get("demo_patched_rc") not in (0, None))
    print(json.dumps(res, indent=1))
    if not valid:
        print("NOT VALID: not kept")
        return 1
    dst = os.path.join(VERIF, "seeded", a.name)
    os.makedirs(dst, exist_ok=True)
    shutil.copy(os.path.join(a.dir, "patch%s.diff" % a.suffix), os.path.join(dst, "patch.diff"))
    shutil.copy(os.path.join(a.dir, "demo%s.py" % a.suffix), os.path.join(dst, "demo.py"))
    if os.path.exists(os.path.join(a.dir, "property.txt")):
        shutil.copy(os.path.join(a.dir, "property.txt"), os.path.join(dst, "property.txt"))
    meta = {}
    mp = os.path.join(a.dir, "meta%s.json" % a.suffix)
    if os.path.exists(mp):
        try:
            meta = json.load(open(mp))
        except Exception:
            meta = {"meta_unreadable": open(mp).read()[:2000]}
    meta.setdefault("property", a.prop)
    meta["what_was_run"] = {k: res[k] for k in ("tests_clean", "tests_patched", "demo_clean_rc", "demo_patched_rc") if k in res}
    meta["what_was_run"]["checks"] = {c: {"exit": v["exit"], "wall_s": v["wall_s"], "lines": v["lines"][:3]}
                                      for c, v in res.get("checks", {}).items()}
    meta["caught"] = bool(res.get("caught"))
    json.dump(meta, open(os.path.join(dst, "meta.json"), "w"), indent=1)
    for c in res.get("checks", {}):
        rp = os.path.join(a.dir, "caught_by_%s%s.json" % (c, a.suffix))
        if os.path.exists(rp):
            shutil.copy(rp, os.path.join(dst, "replay_from_check.json"))
            break
    print("kept as", dst, "caught =", meta["caught"])
    return 0


if __name__ == "__main__":
    sys.exit(main())
