#!/bin/bash
# tools/keep_seed.sh <prop> <outdir> <suffix or ""> <name>  : validate with try_seed and store under seeded/<name>/
set -e
prop=$1; out=$2; suf=$3; name=$4; shift 4
cd "$(dirname "$0")/.."
mkdir -p seeded/$name
python3 tools/try_seed.py $prop $out ${suf:+--suffix $suf} "$@" > seeded/$name/validation.json 2>/dev/null || true
cp $out/patch$suf.diff seeded/$name/patch.diff
cp $out/demo$suf.py seeded/$name/demo.py
cp $out/property.txt seeded/$name/property.txt 2>/dev/null || true
[ -f $out/caught_by_${prop}$suf.json ] && cp $out/caught_by_${prop}$suf.json seeded/$name/replay_from_check.json
python3 - "$out/meta$suf.json" seeded/$name <<'PY'
import json,sys
m=json.load(open(sys.argv[1])); v=json.load(open(sys.argv[2]+'/validation.json'))
m['what_was_run']={'tests_clean':v.get('tests_clean'),'tests_patched':v.get('tests_patched'),'demo_clean_rc':v.get('demo_clean_rc'),'demo_patched_rc':v.get('demo_patched_rc'),
  'checks':{k:{'exit':c['exit'],'wall_s':c['wall_s'],'lines':c['lines'][:3]} for k,c in v.get('checks',{}).items()}}
m['caught']=v.get('caught')
json.dump(m,open(sys.argv[2]+'/meta.json','w'),indent=1)
print(sys.argv[2], 'caught=',m['caught'], {k:c['exit'] for k,c in v.get('checks',{}).items()})
PY
