#!/usr/bin/env python3
"""resolve a merge conflict in known_findings.json: union of both sides' findings (by property+signature)
and fixed lines; a finding whose signature appears in a fixed line is dropped"""
import json, subprocess, sys
def side(n):
    return json.loads(subprocess.run(["git", "show", ":%d:known_findings.json" % n], stdout=subprocess.PIPE, text=True, check=True).stdout)
a, b = side(2), side(3)
out = dict(a)
seen = set()
out["findings"] = []
for f in a["findings"] + b["findings"]:
    k = (f["property"], f["signature"])
    if k in seen:
        continue
    seen.add(k)
    out["findings"].append(f)
out["fixed"] = list(a["fixed"]) + [l for l in b["fixed"] if l not in a["fixed"]]
out["findings"] = [f for f in out["findings"] if not any(f["signature"] in l for l in out["fixed"])]
json.dump(out, open("known_findings.json", "w"), indent=1, ensure_ascii=False)
print([(f["property"], f["signature"]) for f in out["findings"]])
