#!/usr/bin/env python3
"""print the markdown table of seeded changes (DESIGN.md section 0.4) from seeded/*/meta.json"""
import glob
import json
import os

root = os.path.dirname(os.path.dirname(os.path.abspath(__file__)))


def clip(s, n):
    s = " ".join(str(s).split()).replace("|", "/")
    return s if len(s) <= n else s[: n - 1] + "…"


import sys
rows = []
_print = print
print = lambda x: rows.append(x)
print("| seeded change | property | what it does | needs to manifest | first run: check (exit) | after strengthening |")
print("|---|---|---|---|---|---|")
for d in sorted(glob.glob(os.path.join(root, "seeded", "*", ""))):
    name = os.path.basename(d[:-1])
    try:
        m = json.load(open(os.path.join(d, "meta.json")))
    except Exception as e:  # noqa
        print("| %s | ? | meta.json unreadable: %s | | |" % (name, e))
        continue
    ch = m.get("what_was_run", {}).get("checks", {})
    by = ", ".join("%s (%s)" % (k, v.get("exit")) for k, v in sorted(ch.items())) or "—"
    own = ch.get(m.get("property", "?"), {}).get("exit")
    if not m.get("caught"):
        by += " **missed**"
    elif own not in (1, None):
        by += " (own check missed)"
    cas = m.get("caught_after_strengthening")
    after = "—" if cas is None else ("caught" if cas is True else "still missed" if cas is False else clip(cas, 120))
    print("| `%s` | %s | %s | %s | %s | %s |" % (name, m.get("property", "?"), clip(m.get("summary", ""), 230),
                                               clip(m.get("needs_to_manifest", ""), 170), by, after))

print = _print
if "--write" in sys.argv:
    dp = os.path.join(root, "DESIGN.md")
    d = open(dp).read()
    a, b = "<!-- seeded-table-begin -->", "<!-- seeded-table-end -->"
    i, j = d.index(a) + len(a), d.index(b)
    d = d[:i] + "\n" + "\n".join(rows) + "\n" + d[j:]
    open(dp, "w").write(d)
else:
    print("\n".join(rows))
