#!/usr/bin/env python3
"""print the markdown table of seeded changes (DESIGN.md section 0.4) from seeded/*/meta.json"""
import glob
import json
import os

root = os.path.dirname(os.path.dirname(os.path.abspath(__file__)))


def clip(s, n):
    s = " ".join(str(s).split()).replace("|", "/")
    return s if len(s) <= n else s[: n - 1] + "…"


print("| seeded change | property | what it does | needs to manifest | caught by (exit) |")
print("|---|---|---|---|---|")
for d in sorted(glob.glob(os.path.join(root, "seeded", "*", ""))):
    name = os.path.basename(d[:-1])
    try:
        m = json.load(open(os.path.join(d, "meta.json")))
    except Exception as e:  # noqa
        print("| %s | ? | meta.json unreadable: %s | | |" % (name, e))
        continue
    ch = m.get("what_was_run", {}).get("checks", {})
    by = ", ".join("%s (%s)" % (k, v.get("exit")) for k, v in sorted(ch.items())) or "—"
    if not m.get("caught"):
        by += " **missed**"
    print("| `%s` | %s | %s | %s | %s |" % (name, m.get("property", "?"), clip(m.get("summary", ""), 230),
                                          clip(m.get("needs_to_manifest", ""), 170), by))
