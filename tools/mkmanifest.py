#!/usr/bin/env python3
"""assemble MANIFEST.json from manifest.d/*.json (one snippet per claimed property)"""
import glob, json, os
root = os.path.dirname(os.path.dirname(os.path.abspath(__file__)))
checks = []
for f in sorted(glob.glob(os.path.join(root, "manifest.d", "C*.json"))):
    c = json.load(open(f))
    pid = c["property_id"]
    c.setdefault("quick_cmd", "./check %s --tier quick" % pid)
    c.setdefault("thorough_cmd", "./check %s --tier thorough" % pid)
    c.setdefault("evidence_file", "evidence/%s.json" % pid)
    c.setdefault("replay_cmd_template", "./check %s --replay {path}" % pid)
    c.setdefault("engine", "heph-lean")
    checks.append(c)
na = json.load(open(os.path.join(root, "manifest.d", "not_applicable.json")))
claimed = {c["property_id"] for c in checks}
na = [x for x in na if x["property_id"] not in claimed]
m = {
 "version": 1,
 "setup_cmd": "cd lean && lake build Heph hephdrv",
 "hooks": {
  "guard": "HEPHAESTUS_VERIF",
  "enable": "checks export HEPHAESTUS_VERIF=1 (no guarded hook exists in /repo at present: all instrumentation wraps callables from the harness)",
  "baseline_off_cmd": "cd /repo && /venv/bin/python -m pytest -ra -q -p no:cacheprovider --timeout=900 --continue-on-collection-errors",
  "source_commits": [],
  "add_only": True
 },
 "engines": [{"name": "heph-lean", "path": "lean", "serves_properties": sorted(claimed),
              "kind_free_text": "Lean 4 project (models, specs, proofs, line-protocol driver hephdrv) + Python correspondence harness (harness/)"}],
 "checks": checks,
 "not_applicable": na,
 "notes": "One CLI: ./check <Cxx> [--tier quick|thorough] [--replay F]. Exit 0 held, 1 VIOLATION, 2 harness error/timeout. See DESIGN.md."
}
json.dump(m, open(os.path.join(root, "MANIFEST.json"), "w"), indent=1)
print("claimed:", sorted(claimed), "not_applicable:", [x["property_id"] for x in na])
