#!/bin/bash
# runseed.sh <clone> <prop> <seed dir> <name> <suffix or -> [checks]
cl=$1; prop=$2; dir=$3; name=$4; suf=$5; checks=$6
cd /root/work/$cl || exit 2
git pull -q --no-edit /verif main >/dev/null 2>&1
(cd lean && lake build Heph hephdrv 2>&1 | tail -1)
args=""; [ "$suf" != "-" ] && args="--suffix $suf"; [ -n "$checks" ] && args="$args --checks $checks"
python3 tools/keep_seed.py $prop $dir $name $args > /root/work/${cl}_$name.log 2>&1
m=meta; [ "$suf" != "-" ] && m=meta$suf
[ -d seeded/$name ] && cp $dir/$m.json seeded/$name/agent_meta.json
grep -n '"caught"\|"exit"\|kept as\|NOT VALID\|wall_s\|demo_.*rc' /root/work/${cl}_$name.log
