#!/bin/bash
# reval.sh <clone> <prop> <seedname> ...   : re-validate seeds of /verif/seeded against merged /verif main
cl=$1; shift
cd /root/work/$cl || exit 2
git fetch -q /verif main && git reset -q --hard FETCH_HEAD
rm -rf lean/.lake && cp -r /verif/lean/.lake lean/.lake
(cd lean && lake build Heph hephdrv 2>&1 | tail -1)
while [ $# -gt 0 ]; do
  prop=$1; name=$2; shift 2
  wt=/tmp/reval_${cl}_$name
  git -C /repo worktree add --detach $wt HEAD >/dev/null 2>&1
  git -C $wt apply /verif/seeded/$name/patch.diff
  t0=$(date +%s)
  HEPH_REPO=$wt ./check $prop --tier quick > /root/work/final/reval_$name.log 2>&1
  rc=$?
  echo "$name check=$prop exit=$rc wall=$(( $(date +%s) - t0 ))s violations=$(grep -c '^VIOLATION' /root/work/final/reval_$name.log)" >> /root/work/final/reval_summary.txt
  git -C /repo worktree remove --force $wt
  git checkout -q -- evidence lean/Heph/Generated
done
