#!/usr/bin/env python3
"""resolve git conflict blocks made of markdown table rows `| Cxx | ...`: per row id take THEIRS when the id is
in the owned list, else OURS.  Non-table conflict blocks: take theirs if --theirs-other else report."""
import re, sys
path = sys.argv[1]; owned = set(a for a in sys.argv[2:] if not a.startswith('--')); theirs_other = '--theirs-other' in sys.argv
s = open(path).read().split('\n')
out = []; i = 0; unresolved = 0
while i < len(s):
    if s[i].startswith('<<<<<<< '):
        j = i + 1; ours = []
        while not s[j].startswith('======='): ours.append(s[j]); j += 1
        j += 1; theirs = []
        while not s[j].startswith('>>>>>>> '): theirs.append(s[j]); j += 1
        rid = lambda l: (re.match(r'\| `?(C\d\d)(-\d)?`? \|', l) or [None, None])[1]
        if all(rid(l) for l in ours + theirs if l.strip()):
            o = {rid(l): l for l in ours if l.strip()}; t = {rid(l): l for l in theirs if l.strip()}
            ids = sorted(set(o) | set(t))
            for k in ids:
                out.append(t[k] if (k in owned and k in t) else o.get(k, t.get(k)))
        elif theirs_other:
            out.extend(theirs)
        else:
            unresolved += 1
            out.extend(s[i:j + 1])
        i = j + 1
    else:
        out.append(s[i]); i += 1
open(path, 'w').write('\n'.join(out))
print('unresolved blocks:', unresolved)
