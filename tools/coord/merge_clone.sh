#!/bin/bash
# merge_clone.sh <clone> <message> <owned ids...>
cl=$1; msg=$2; shift 2
cd /verif || exit 2
git pull --no-edit /root/work/$cl main > /tmp/merge_$cl.log 2>&1
conf=$(git diff --name-only --diff-filter=U)
for f in $conf; do
  case $f in
    DESIGN.md) python3 /root/work/bin/resolve_rows.py DESIGN.md "$@";;
    MANIFEST.json|evidence/*) git checkout --ours -- $f;;
    *) echo "CONFLICT needs hand: $f";;
  esac
done
left=$(grep -l "^<<<<<<< " $conf 2>/dev/null)
if [ -n "$left" ]; then echo "UNRESOLVED: $left"; exit 1; fi
python3 tools/mkmanifest.py | tail -1
git add -A; git commit -qm "$msg"; git log --oneline | head -1
