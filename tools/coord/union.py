#!/usr/bin/env python3
import sys
for path in sys.argv[1:]:
    s = open(path).read().split('\n'); out = []; i = 0; n = 0
    while i < len(s):
        if s[i].startswith('<<<<<<< '):
            j = i + 1; ours = []
            while not s[j].startswith('======='): ours.append(s[j]); j += 1
            j += 1; theirs = []
            while not s[j].startswith('>>>>>>> '): theirs.append(s[j]); j += 1
            out.extend(ours); out.extend(t for t in theirs if t not in ours or not t.strip()); i = j + 1; n += 1
        else:
            out.append(s[i]); i += 1
    open(path, 'w').write('\n'.join(out)); print(path, 'blocks unioned:', n)
